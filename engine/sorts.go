package govc

import (
	"fmt"
	"go/types"
	"strings"
)

// Prelude: uninterpreted sorts, string theory, interface boxing.
func (tb *TB) Prelude() {
	tb.AddSortDecl("Str", "(declare-sort Str 0)")
	tb.AddSortDecl("Ref", "(declare-sort Ref 0)")
	tb.AddSortDecl("Iface", "(declare-sort Iface 0)")
	tb.AddSortDecl("Func", "(declare-sort Func 0)")
	tb.AddSortDecl("Opaque", "(declare-sort Opaque 0)")
	tb.AddSortDecl("Slice", "(declare-datatypes ((Slice 0)) (((mk_slice (s_arr Ref) (s_off Int) (s_len Int) (s_cap Int)))))")
	tb.DeclFun("s_len", []string{"Str"}, "Int")
	tb.DeclFun("s_at", []string{"Str", "Int"}, "Int")
	tb.DeclFun("s_sub", []string{"Str", "Int", "Int"}, "Str")
	tb.DeclFun("s_cat", []string{"Str", "Str"}, "Str")
	tb.Const("null", "Ref")
	tb.Const("inil", "Iface")
	tb.Const("fnil", "Func")
	tb.Const("s_empty", "Str")
	tb.DeclFun("i_tag", []string{"Iface"}, "Int")
	tb.DeclFun("godiv", []string{"Int", "Int"}, "Int")
	tb.DeclFun("gomod", []string{"Int", "Int"}, "Int")

	s := tb.BoundVar("s", "Str")
	a := tb.BoundVar("a", "Str")
	b := tb.BoundVar("b", "Str")
	i := tb.BoundVar("i", "Int")
	j := tb.BoundVar("j", "Int")
	k := tb.BoundVar("k", "Int")
	slen := func(x *Term) *Term { return tb.App("s_len", "Int", x) }
	sat := func(x, y *Term) *Term { return tb.App("s_at", "Int", x, y) }
	ssub := func(x, y, z *Term) *Term { return tb.App("s_sub", "Str", x, y, z) }
	scat := func(x, y *Term) *Term { return tb.App("s_cat", "Str", x, y) }
	z := tb.Int(0)
	tb.AddAxiom("str-len-nonneg", tb.Quant(true, []*Term{s}, tb.Ge(slen(s), z), slen(s)))
	tb.AddAxiom("str-at-byte", tb.Quant(true, []*Term{s, i}, tb.And(tb.Ge(sat(s, i), z), tb.Le(sat(s, i), tb.Int(255))), sat(s, i)))
	tb.AddAxiom("str-empty", tb.Eq(slen(tb.Const("s_empty", "Str")), z))
	tb.AddAxiom("str-empty-unique", tb.Quant(true, []*Term{s}, tb.Implies(tb.Eq(slen(s), z), tb.Eq(s, tb.Const("s_empty", "Str"))), slen(s)))
	okRange := tb.And(tb.Le(z, i), tb.Le(i, j), tb.Le(j, slen(s)))
	tb.AddAxiom("str-sub-len", tb.Quant(true, []*Term{s, i, j}, tb.Implies(okRange, tb.Eq(slen(ssub(s, i, j)), tb.Sub(j, i))), ssub(s, i, j)))
	tb.AddAxiom("str-sub-at", tb.Quant(true, []*Term{s, i, j, k},
		tb.Implies(tb.And(okRange, tb.Le(z, k), tb.Lt(k, tb.Sub(j, i))), tb.Eq(sat(ssub(s, i, j), k), sat(s, tb.Add(i, k)))), sat(ssub(s, i, j), k)))
	tb.AddAxiom("str-sub-full", tb.Quant(true, []*Term{s}, tb.Eq(ssub(s, z, slen(s)), s), ssub(s, z, slen(s))))
	tb.AddAxiom("str-cat-len", tb.Quant(true, []*Term{a, b}, tb.Eq(slen(scat(a, b)), tb.Add(slen(a), slen(b))), scat(a, b)))
	tb.AddAxiom("str-cat-at", tb.Quant(true, []*Term{a, b, k},
		tb.Eq(sat(scat(a, b), k), tb.Ite(tb.Lt(k, slen(a)), sat(a, k), sat(b, tb.Sub(k, slen(a))))), sat(scat(a, b), k)))
	// sub of sub
	l := tb.BoundVar("l", "Int")
	tb.AddAxiom("str-sub-sub", tb.Quant(true, []*Term{s, i, j, k, l},
		tb.Implies(tb.And(okRange, tb.Le(z, k), tb.Le(k, l), tb.Le(l, tb.Sub(j, i))),
			tb.Eq(ssub(ssub(s, i, j), k, l), ssub(s, tb.Add(i, k), tb.Add(i, l)))), ssub(ssub(s, i, j), k, l)))
	// cat / sub interplay (instances of extensionality)
	cab := scat(a, b)
	tb.AddAxiom("str-cat-sub-left", tb.Quant(true, []*Term{a, b}, tb.Eq(ssub(cab, z, slen(a)), a), cab))
	tb.AddAxiom("str-cat-sub-right", tb.Quant(true, []*Term{a, b}, tb.Eq(ssub(cab, slen(a), slen(cab)), b), cab))
	tb.AddAxiom("str-cat-empty", tb.Quant(true, []*Term{a}, tb.And(tb.Eq(scat(a, tb.Const("s_empty", "Str")), a), tb.Eq(scat(tb.Const("s_empty", "Str"), a), a)), scat(a, tb.Const("s_empty", "Str")), scat(tb.Const("s_empty", "Str"), a)))
	cc := tb.BoundVar("c", "Str")
	tb.AddAxiom("str-cat-assoc", tb.Quant(true, []*Term{a, b, cc}, tb.Eq(scat(scat(a, b), cc), scat(a, scat(b, cc))), scat(scat(a, b), cc)))
	// Go division/modulo (truncated)
	x := tb.BoundVar("x", "Int")
	y := tb.BoundVar("y", "Int")
	gd := tb.App("godiv", "Int", x, y)
	gm := tb.App("gomod", "Int", x, y)
	sdiv := tb.App("div", "Int", x, y)
	smod := tb.App("mod", "Int", x, y)
	// x >= 0: same as SMT div/mod for y>0; general: q = trunc(x/y)
	tb.AddAxiom("godiv", tb.Quant(true, []*Term{x, y}, tb.Implies(tb.Not(tb.Eq(y, z)),
		tb.Eq(gd, tb.Ite(tb.Or(tb.Ge(x, z), tb.Eq(smod, z)), sdiv, tb.Ite(tb.Gt(y, z), tb.Add(sdiv, tb.Int(1)), tb.Sub(sdiv, tb.Int(1)))))), gd))
	tb.AddAxiom("gomod", tb.Quant(true, []*Term{x, y}, tb.Implies(tb.Not(tb.Eq(y, z)),
		tb.Eq(gm, tb.Sub(x, tb.Mul(y, gd)))), gm))
	tb.AddAxiom("inil-tag", tb.Eq(tb.App("i_tag", "Int", tb.Const("inil", "Iface")), z))
}

// ---------- Go type -> SMT sort

type Sorts struct {
	tb       *TB
	structs  map[string]*types.Struct // datatype name -> struct
	named    map[string]types.Type
	tagIDs   map[string]int
	building map[string]bool
	embIDs   map[string]int
}

func NewSorts(tb *TB) *Sorts {
	return &Sorts{tb: tb, structs: map[string]*types.Struct{}, named: map[string]types.Type{}, tagIDs: map[string]int{}, building: map[string]bool{}}
}

func isTimeTime(t types.Type) bool {
	if n, ok := t.(*types.Named); ok {
		o := n.Obj()
		return o.Pkg() != nil && o.Pkg().Path() == "time" && o.Name() == "Time"
	}
	return false
}

func typeName(t types.Type) string {
	switch t := t.(type) {
	case *types.Named:
		o := t.Obj()
		n := o.Name()
		if o.Pkg() != nil {
			p := o.Pkg().Path()
			p = strings.TrimPrefix(p, "github.com/snapcore/snapd/")
			n = p + "." + n
		}
		if ta := t.TypeArgs(); ta != nil && ta.Len() > 0 {
			for i := 0; i < ta.Len(); i++ {
				n += "_" + typeName(ta.At(i))
			}
		}
		return n
	case *types.Pointer:
		return "*" + typeName(t.Elem())
	case *types.Slice:
		return "[]" + typeName(t.Elem())
	case *types.Alias:
		return typeName(types.Unalias(t))
	default:
		return t.String()
	}
}

// Sort returns the SMT sort for a Go type.
func (so *Sorts) Sort(t types.Type) string {
	t = types.Unalias(t)
	if isTimeTime(t) {
		return "Int"
	}
	switch u := t.Underlying().(type) {
	case *types.Basic:
		switch {
		case u.Info()&types.IsInteger != 0:
			return "Int"
		case u.Info()&types.IsBoolean != 0:
			return "Bool"
		case u.Info()&types.IsString != 0:
			return "Str"
		case u.Info()&types.IsFloat != 0:
			return "Real"
		case u.Kind() == types.UnsafePointer:
			return "Ref"
		case u.Kind() == types.UntypedNil:
			return "Ref"
		}
		return "Opaque"
	case *types.Pointer, *types.Map, *types.Chan:
		return "Ref"
	case *types.Slice:
		return "Slice"
	case *types.Signature:
		return "Func"
	case *types.Interface:
		return "Iface"
	case *types.Array:
		return ArraySort("Int", so.Sort(u.Elem()))
	case *types.Struct:
		return so.structSort(t, u)
	case *types.Tuple:
		return "Opaque"
	}
	return "Opaque"
}

func (so *Sorts) structName(t types.Type) string {
	if _, ok := t.(*types.Named); ok {
		return "S_" + mangle(typeName(t))
	}
	return "S_anon_" + mangle(fmt.Sprintf("%x", hashString(t.String())))
}

func hashString(s string) uint32 {
	var h uint32 = 2166136261
	for i := 0; i < len(s); i++ {
		h ^= uint32(s[i])
		h *= 16777619
	}
	return h
}

func (so *Sorts) structSort(t types.Type, st *types.Struct) string {
	name := so.structName(t)
	if _, ok := so.structs[name]; ok {
		return name
	}
	if so.building[name] {
		return name
	}
	so.building[name] = true
	var fields []string
	for i := 0; i < st.NumFields(); i++ {
		f := st.Field(i)
		fields = append(fields, fmt.Sprintf("(%s %s)", so.FieldAcc(name, f.Name(), i), so.Sort(f.Type())))
		so.tb.RegisterAccessor(so.FieldAcc(name, f.Name(), i), "mk_"+name, i)
	}
	so.structs[name] = st
	so.named[name] = t
	if len(fields) == 0 {
		so.tb.AddSortDecl(name, fmt.Sprintf("(declare-datatypes ((%s 0)) (((mk_%s))))", name, name))
	} else {
		so.tb.AddSortDecl(name, fmt.Sprintf("(declare-datatypes ((%s 0)) (((mk_%s %s))))", name, name, strings.Join(fields, " ")))
	}
	delete(so.building, name)
	return name
}

func (so *Sorts) FieldAcc(structSort, field string, idx int) string {
	if field == "_" {
		field = fmt.Sprintf("blank%d", idx)
	}
	return "f_" + structSort[2:] + "_" + mangle(field)
}

// TagID is the dynamic type tag of a Go type in interface values (> 0).
func (so *Sorts) TagID(t types.Type) int {
	n := typeName(types.Unalias(t))
	if id, ok := so.tagIDs[n]; ok {
		return id
	}
	id := len(so.tagIDs) + 1
	so.tagIDs[n] = id
	return id
}

// Box/unbox function names for a Go type stored in an interface.
func (so *Sorts) BoxFns(t types.Type) (box, unbox string) {
	n := mangle(typeName(types.Unalias(t)))
	srt := so.Sort(t)
	box = so.tb.DeclFun("box_"+n, []string{srt}, "Iface")
	unbox = so.tb.DeclFun("unbox_"+n, []string{"Iface"}, srt)
	x := so.tb.BoundVar("x", srt)
	bx := so.tb.App(box, "Iface", x)
	so.tb.AddAxiom("box-"+n, so.tb.Quant(true, []*Term{x},
		so.tb.And(so.tb.Eq(so.tb.App(unbox, srt, bx), x), so.tb.Eq(so.tb.App("i_tag", "Int", bx), so.tb.Int(int64(so.TagID(t))))), bx))
	return
}

// Zero value of a Go type.
func (so *Sorts) Zero(t types.Type) *Term {
	tb := so.tb
	t = types.Unalias(t)
	if isTimeTime(t) {
		return tb.Const("time_zero", "Int")
	}
	srt := so.Sort(t)
	switch srt {
	case "Int":
		return tb.Int(0)
	case "Bool":
		return tb.False()
	case "Str":
		return tb.Const("s_empty", "Str")
	case "Ref":
		return tb.Const("null", "Ref")
	case "Iface":
		return tb.Const("inil", "Iface")
	case "Func":
		return tb.Const("fnil", "Func")
	case "Real":
		return tb.Lit("0.0", "Real")
	case "Slice":
		return tb.App("mk_slice", "Slice", tb.Const("null", "Ref"), tb.Int(0), tb.Int(0), tb.Int(0))
	case "Opaque":
		return tb.Const("opaque_zero", "Opaque")
	}
	switch u := t.Underlying().(type) {
	case *types.Array:
		es := so.Sort(u.Elem())
		return tb.ConstArray("Int", so.Sort(u.Elem()), so.Zero(u.Elem()))
		_ = es
	case *types.Struct:
		var args []*Term
		for i := 0; i < u.NumFields(); i++ {
			args = append(args, so.Zero(u.Field(i).Type()))
		}
		if len(args) == 0 {
			return tb.App("mk_"+srt, srt) // nullary constructor of the datatype (not a declared constant)
		}
		return tb.App("mk_"+srt, srt, args...)
	}
	return tb.Const("zero_"+mangle(srt), srt)
}

// intRange returns the [lo,hi] bounds of a Go integer type as decimal strings.
func intRange(t types.Type) (lo, hi string, ok bool) {
	b, isB := types.Unalias(t).Underlying().(*types.Basic)
	if !isB || b.Info()&types.IsInteger == 0 {
		return "", "", false
	}
	switch b.Kind() {
	case types.Int8:
		return "-128", "127", true
	case types.Int16:
		return "-32768", "32767", true
	case types.Int32:
		return "-2147483648", "2147483647", true
	case types.Int, types.Int64, types.UntypedInt, types.UntypedRune:
		return "-9223372036854775808", "9223372036854775807", true
	case types.Uint8:
		return "0", "255", true
	case types.Uint16:
		return "0", "65535", true
	case types.Uint32:
		return "0", "4294967295", true
	case types.Uint, types.Uint64, types.Uintptr:
		return "0", "18446744073709551615", true
	}
	return "", "", false
}

func intBits(t types.Type) (bits int, signed bool) {
	b, isB := types.Unalias(t).Underlying().(*types.Basic)
	if !isB {
		return 64, true
	}
	switch b.Kind() {
	case types.Int8:
		return 8, true
	case types.Int16:
		return 16, true
	case types.Int32:
		return 32, true
	case types.Uint8:
		return 8, false
	case types.Uint16:
		return 16, false
	case types.Uint32:
		return 32, false
	case types.Uint, types.Uint64, types.Uintptr:
		return 64, false
	}
	return 64, true
}

// InRange builds lo <= x <= hi for the integer type, or true.
func (so *Sorts) InRange(x *Term, t types.Type) *Term {
	if isTimeTime(t) {
		return so.tb.True()
	}
	lo, hi, ok := intRange(t)
	if !ok || x.Sort != "Int" {
		return so.tb.True()
	}
	return so.tb.And(so.tb.Le(so.tb.BigInt(lo), x), so.tb.Le(x, so.tb.BigInt(hi)))
}
