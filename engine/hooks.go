package govc

import (
	"fmt"
	"go/types"
	"strings"
)

// guardHook: effect-site guards declared in the contract of the function being verified.
// kind: mapdelete | mapstore | append | call | store; target "Type.field" or callee name.
func (fc *FnCtx) guardHook(st *State, kind, target string, vals map[string]Val, typs map[string]types.Type) {
	if fc.con == nil || fc.pureMode || target == "" {
		return
	}
	n := 0
	for _, g := range fc.con.Guards {
		if g.Kind != kind || !guardTargetMatches(g.Target, target) {
			continue
		}
		env := fc.loopEnv(st, nil)
		for k, v := range vals {
			if t, ok := v.(*Term); ok {
				env.vars[k] = envVar{t, typs[k]}
			}
		}
		goal := fc.guardGoal(env, g.Cond)
		if goal == nil {
			fc.guardCount[kind+" "+g.Target]++
			continue
		}
		fc.guardCount[kind+" "+g.Target]++
		ord := fc.guardCount[kind+" "+g.Target] - 1
		name := fmt.Sprintf("%s#guard#%s:%s.%d", fc.fnName(), kind, g.Target, ord)
		if g.Cond.Label != "" {
			name = fmt.Sprintf("%s#guard#%s:%s[%s].%d", fc.fnName(), kind, g.Target, g.Cond.Label, ord)
		}
		fc.oblige(st, "guard", name, goal, fc.eng.pos(fc.curInstr.Pos()), g.Cond.Text)
		n++
	}
}

func guardTargetMatches(pat, target string) bool {
	if pat == target {
		return true
	}
	// allow package-less suffix match: "os.Rename" vs "os.Rename"; "(*T).m" vs "pkg.(*T).m"
	if strings.HasSuffix(target, "."+pat) || strings.HasSuffix(target, "/"+pat) {
		return true
	}
	return false
}

// fieldWriteHook: field-write guards and store guards.
func (fc *FnCtx) fieldWriteHook(a *Addr, st *State, v *Term) {
	if len(a.Path) != 0 {
		return
	}
	// key is "H:pkg.Type.field"
	full := a.Key[2:]
	short := full
	if i := strings.LastIndex(full, "/"); i >= 0 {
		short = full[i+1:]
	}
	// strip package name: "state.Task.status" -> "Task.status"
	if i := strings.Index(short, "."); i >= 0 && strings.Count(short, ".") >= 2 {
		short = short[i+1:]
	}
	old := fc.loadRoot(a, st)
	vals := map[string]Val{"obj": a.Ref, "val": v, "oldval": old}
	typs := map[string]types.Type{"obj": types.Typ[types.UnsafePointer], "val": a.Type, "oldval": a.Type}
	// obj gets the pointer type of the struct owning the field when it is a named type of this package
	if i := strings.Index(short, "."); i > 0 && fc.fn.Pkg != nil {
		if o := fc.fn.Pkg.Pkg.Scope().Lookup(short[:i]); o != nil {
			if _, isS := isStructType(o.Type()); isS {
				typs["obj"] = types.NewPointer(o.Type())
			}
		}
	}
	if fc.con != nil {
		fc.guardHook(st, "store", short, vals, typs)
	}
	for _, fg := range fc.eng.cs.FieldGuards {
		if fg.Field != short || fg.Pkg != fc.fn.Pkg.Pkg.Path() {
			continue
		}
		if !fc.fieldGuardsOn {
			continue
		}
		env := fc.loopEnv(st, nil)
		for k, x := range vals {
			env.vars[k] = envVar{x.(*Term), typs[k]}
		}
		goal := fc.transBool(env, fg.Cond)
		fc.guardCount["fg "+short]++
		name := fmt.Sprintf("%s#fieldguard#%s.%d", fc.fnName(), short, fc.guardCount["fg "+short]-1)
		fc.oblige(st, "fieldguard", name, goal, fc.eng.pos(fc.curInstr.Pos()), fg.Cond.Text)
	}
}
