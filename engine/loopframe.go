package govc

import (
	"sort"
	"strings"
)

// loopFrame: for every heap map the loop modifies, objects that were allocated when the function
// was entered have the contents they had at entry.
func (fc *FnCtx) loopFrame(li *loopInfo, st *State) *Term {
	tb := fc.tb
	var ks []string
	for k := range li.modKeys {
		ks = append(ks, k)
	}
	sort.Strings(ks)
	al0 := tb.Const("h0!alloc", ArraySort("Ref", "Bool"))
	fc.regKey("alloc", ArraySort("Ref", "Bool"))
	r := tb.BoundVar("fr", "Ref")
	var conj []*Term
	for _, k := range ks {
		srt := fc.keySort[k]
		if k == "alloc" || strings.HasPrefix(k, "ghost:") || strings.HasPrefix(k, "iter:") || !strings.HasPrefix(srt, "(Array Ref ") {
			continue
		}
		cur, ok := st.heap[k]
		if !ok {
			continue
		}
		k0 := tb.Const("h0!"+k, srt)
		if cur == k0 {
			continue
		}
		conj = append(conj, tb.Quant(true, []*Term{r}, tb.Implies(tb.Select(al0, fc.objBase(r)), tb.Eq(tb.Select(cur, r), tb.Select(k0, r))), tb.Select(cur, r)))
	}
	return tb.And(conj...)
}
