package govc

// Heap keys of map contents, per (key sort, value sort) so that maps of different Go types do not
// share heap maps: domain, values, cardinality.
func mapDomKey(ks, vs string) string  { return "Md:" + ks + ":" + vs }
func mapValKey(ks, vs string) string  { return "Mv:" + ks + ":" + vs }
func mapCardKey(ks, vs string) string { return "Mc:" + ks + ":" + vs }
