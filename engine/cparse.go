package govc

import (
	"fmt"
	"strings"
	"unicode"
)

// Contract expression AST.
type CExpr interface{}

type CIdent struct{ Name string }
type CInt struct{ Val string }
type CStr struct{ Val string }
type CBin struct {
	Op   string
	L, R CExpr
}
type CUn struct {
	Op string
	X  CExpr
}
type CCall struct {
	Fun  CExpr
	Args []CExpr
}
type CSel struct {
	X    CExpr
	Name string
}
type CIndex struct{ X, I CExpr }
type CSlice struct{ X, Lo, Hi CExpr }
type CVar struct {
	Name string
	Type CType
}
type CType struct {
	Ptr     int
	Slice   bool
	Pkg     string
	Name    string
	MapKey  *CType
	MapElem *CType
}
type CQuant struct {
	Forall bool
	Vars   []CVar
	Trigs  [][]CExpr
	Body   CExpr
}

type ctok struct {
	kind string // id int str op eof
	text string
}

type cparser struct {
	toks []ctok
	pos  int
	src  string
}

func clex(s string) ([]ctok, error) {
	var toks []ctok
	i := 0
	for i < len(s) {
		c := s[i]
		switch {
		case c == ' ' || c == '\t' || c == '\n':
			i++
		case unicode.IsLetter(rune(c)) || c == '_':
			j := i
			for j < len(s) && (unicode.IsLetter(rune(s[j])) || unicode.IsDigit(rune(s[j])) || s[j] == '_' || s[j] == '$') {
				j++
			}
			toks = append(toks, ctok{"id", s[i:j]})
			i = j
		case c >= '0' && c <= '9':
			j := i
			for j < len(s) && (s[j] >= '0' && s[j] <= '9' || s[j] == 'x' || s[j] >= 'a' && s[j] <= 'f' || s[j] >= 'A' && s[j] <= 'F' || s[j] == '_') {
				j++
			}
			toks = append(toks, ctok{"int", s[i:j]})
			i = j
		case c == '"':
			j := i + 1
			var sb strings.Builder
			for j < len(s) && s[j] != '"' {
				if s[j] == '\\' && j+1 < len(s) {
					j++
					switch s[j] {
					case 'n':
						sb.WriteByte('\n')
					case 't':
						sb.WriteByte('\t')
					case '\\':
						sb.WriteByte('\\')
					case '"':
						sb.WriteByte('"')
					default:
						return nil, fmt.Errorf("bad escape in %q", s)
					}
					j++
					continue
				}
				sb.WriteByte(s[j])
				j++
			}
			if j >= len(s) {
				return nil, fmt.Errorf("unterminated string in %q", s)
			}
			toks = append(toks, ctok{"str", sb.String()})
			i = j + 1
		case c == '\'':
			// char literal
			if i+2 < len(s) && s[i+1] != '\\' && s[i+2] == '\'' {
				toks = append(toks, ctok{"int", fmt.Sprint(int(s[i+1]))})
				i += 3
			} else if i+3 < len(s) && s[i+1] == '\\' && s[i+3] == '\'' {
				var v int
				switch s[i+2] {
				case 'n':
					v = '\n'
				case 't':
					v = '\t'
				case '\\':
					v = '\\'
				case '\'':
					v = '\''
				case '0':
					v = 0
				default:
					return nil, fmt.Errorf("bad char literal in %q", s)
				}
				toks = append(toks, ctok{"int", fmt.Sprint(v)})
				i += 4
			} else {
				return nil, fmt.Errorf("bad char literal in %q", s)
			}
		default:
			ops := []string{"<==>", "==>", "::", "==", "!=", "<=", ">=", "&&", "||", "[]", "<", ">", "+", "-", "*", "/", "%", "!", "(", ")", "[", "]", ".", ",", ":", "{", "}"}
			found := false
			for _, op := range ops {
				if strings.HasPrefix(s[i:], op) {
					// "[]" only as a type prefix: treat as op if followed by letter or '*'
					if op == "[]" {
						if i+2 < len(s) && (unicode.IsLetter(rune(s[i+2])) || s[i+2] == '*') {
							toks = append(toks, ctok{"op", op})
							i += 2
							found = true
						}
						if found {
							break
						}
						continue
					}
					toks = append(toks, ctok{"op", op})
					i += len(op)
					found = true
					break
				}
			}
			if !found {
				return nil, fmt.Errorf("unexpected character %q in %q", c, s)
			}
		}
	}
	toks = append(toks, ctok{"eof", ""})
	return toks, nil
}

func ParseCExpr(s string) (e CExpr, err error) {
	toks, err := clex(s)
	if err != nil {
		return nil, err
	}
	p := &cparser{toks: toks, src: s}
	defer func() {
		if r := recover(); r != nil {
			if pe, ok := r.(cparseErr); ok {
				err = fmt.Errorf("%s in %q", string(pe), s)
				return
			}
			panic(r)
		}
	}()
	e = p.expr()
	if p.peek().kind != "eof" {
		p.fail("trailing tokens at " + p.peek().text)
	}
	return e, nil
}

type cparseErr string

func (p *cparser) fail(msg string) { panic(cparseErr(msg)) }
func (p *cparser) peek() ctok      { return p.toks[p.pos] }
func (p *cparser) next() ctok      { t := p.toks[p.pos]; p.pos++; return t }
func (p *cparser) isOp(op string) bool {
	t := p.peek()
	return t.kind == "op" && t.text == op
}
func (p *cparser) accept(op string) bool {
	if p.isOp(op) {
		p.pos++
		return true
	}
	return false
}
func (p *cparser) expect(op string) {
	if !p.accept(op) {
		p.fail("expected " + op + " got " + p.peek().text)
	}
}

func (p *cparser) expr() CExpr {
	t := p.peek()
	if t.kind == "id" && (t.text == "forall" || t.text == "exists") {
		// quantifier if followed by ident and then a type and '::'
		if p.toks[p.pos+1].kind == "id" {
			return p.quant()
		}
	}
	return p.iff()
}

func (p *cparser) quant() CExpr {
	q := &CQuant{Forall: p.next().text == "forall"}
	for {
		var names []string
		names = append(names, p.ident())
		for p.accept(",") {
			// could be next group "name type" or another name of the same group; look ahead:
			names = append(names, p.ident())
		}
		ty := p.ctype()
		for _, n := range names {
			q.Vars = append(q.Vars, CVar{n, ty})
		}
		if p.accept("::") {
			break
		}
		if p.accept(",") {
			continue
		}
		p.fail("expected :: in quantifier")
	}
	for p.isOp("{") {
		p.next()
		var trig []CExpr
		trig = append(trig, p.expr())
		for p.accept(",") {
			trig = append(trig, p.expr())
		}
		p.expect("}")
		q.Trigs = append(q.Trigs, trig)
	}
	q.Body = p.expr()
	return q
}

func (p *cparser) ident() string {
	t := p.next()
	if t.kind != "id" {
		p.fail("expected identifier, got " + t.text)
	}
	return t.text
}

func (p *cparser) ctype() CType {
	var ty CType
	if p.accept("[]") {
		ty.Slice = true
	}
	for p.accept("*") {
		ty.Ptr++
	}
	n := p.ident()
	if n == "map" && p.isOp("[") {
		p.next()
		k := p.ctype()
		p.expect("]")
		v := p.ctype()
		ty.MapKey, ty.MapElem = &k, &v
		return ty
	}
	if p.accept(".") {
		ty.Pkg = n
		ty.Name = p.ident()
	} else {
		ty.Name = n
	}
	return ty
}

func (p *cparser) iff() CExpr {
	l := p.implies()
	for p.accept("<==>") {
		r := p.implies()
		l = &CBin{"<==>", l, r}
	}
	return l
}

func (p *cparser) implies() CExpr {
	l := p.or()
	if p.accept("==>") {
		// right associative; allow quantifier on the right
		var r CExpr
		t := p.peek()
		if t.kind == "id" && (t.text == "forall" || t.text == "exists") && p.toks[p.pos+1].kind == "id" {
			r = p.quant()
		} else {
			r = p.implies()
		}
		return &CBin{"==>", l, r}
	}
	return l
}

func (p *cparser) or() CExpr {
	l := p.and()
	for p.accept("||") {
		l = &CBin{"||", l, p.and()}
	}
	return l
}

func (p *cparser) and() CExpr {
	l := p.cmp()
	for p.accept("&&") {
		l = &CBin{"&&", l, p.cmp()}
	}
	return l
}

func (p *cparser) cmp() CExpr {
	l := p.add()
	for _, op := range []string{"==", "!=", "<=", ">=", "<", ">"} {
		if p.accept(op) {
			r := p.add()
			res := CExpr(&CBin{op, l, r})
			// chained comparison a <= b < c
			for _, op2 := range []string{"<=", "<", ">=", ">"} {
				if p.accept(op2) {
					r2 := p.add()
					res = &CBin{"&&", res, &CBin{op2, r, r2}}
					break
				}
			}
			return res
		}
	}
	return l
}

func (p *cparser) add() CExpr {
	l := p.mul()
	for {
		if p.accept("+") {
			l = &CBin{"+", l, p.mul()}
		} else if p.accept("-") {
			l = &CBin{"-", l, p.mul()}
		} else {
			return l
		}
	}
}

func (p *cparser) mul() CExpr {
	l := p.unary()
	for {
		if p.accept("*") {
			l = &CBin{"*", l, p.unary()}
		} else if p.accept("/") {
			l = &CBin{"/", l, p.unary()}
		} else if p.accept("%") {
			l = &CBin{"%", l, p.unary()}
		} else {
			return l
		}
	}
}

func (p *cparser) unary() CExpr {
	if p.accept("!") {
		return &CUn{"!", p.unary()}
	}
	if p.accept("-") {
		return &CUn{"-", p.unary()}
	}
	if p.accept("*") {
		return &CUn{"*", p.unary()}
	}
	return p.postfix()
}

func (p *cparser) postfix() CExpr {
	e := p.primary()
	for {
		switch {
		case p.accept("."):
			e = &CSel{e, p.ident()}
		case p.accept("("):
			var args []CExpr
			if !p.isOp(")") {
				args = append(args, p.expr())
				for p.accept(",") {
					args = append(args, p.expr())
				}
			}
			p.expect(")")
			e = &CCall{e, args}
		case p.accept("["):
			var lo, hi CExpr
			if p.accept(":") {
				if !p.isOp("]") {
					hi = p.expr()
				}
				p.expect("]")
				e = &CSlice{e, nil, hi}
				continue
			}
			lo = p.expr()
			if p.accept(":") {
				if !p.isOp("]") {
					hi = p.expr()
				}
				p.expect("]")
				e = &CSlice{e, lo, hi}
				continue
			}
			p.expect("]")
			e = &CIndex{e, lo}
		default:
			return e
		}
	}
}

func (p *cparser) primary() CExpr {
	t := p.next()
	switch t.kind {
	case "id":
		if (t.text == "forall" || t.text == "exists") && p.peek().kind == "id" {
			// quantifier as an operand: extends as far to the right as possible
			p.pos--
			return p.quant()
		}
		return &CIdent{t.text}
	case "int":
		return &CInt{strings.ReplaceAll(t.text, "_", "")}
	case "str":
		return &CStr{t.text}
	case "op":
		if t.text == "(" {
			e := p.expr()
			p.expect(")")
			return e
		}
	}
	p.fail("unexpected token " + t.text)
	return nil
}
