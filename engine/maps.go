package govc

import (
	"fmt"
	"go/types"

	"golang.org/x/tools/go/ssa"
)

func (fc *FnCtx) mapKeys(mt *types.Map) (dom, val, card string) {
	ks, vs := fc.so.Sort(mt.Key()), fc.so.Sort(mt.Elem())
	return mapDomKey(ks, vs), mapValKey(ks, vs), mapCardKey(ks, vs)
}

func (fc *FnCtx) mapDom(st *State, mt *types.Map, m *Term) *Term {
	dk, _, _ := fc.mapKeys(mt)
	ks := fc.so.Sort(mt.Key())
	return fc.tb.Select(fc.heapGet(st, dk, ArraySort("Ref", ArraySort(ks, "Bool"))), m)
}

func (fc *FnCtx) mapVals(st *State, mt *types.Map, m *Term) *Term {
	_, vk, _ := fc.mapKeys(mt)
	ks, vs := fc.so.Sort(mt.Key()), fc.so.Sort(mt.Elem())
	return fc.tb.Select(fc.heapGet(st, vk, ArraySort("Ref", ArraySort(ks, vs))), m)
}

func (fc *FnCtx) mapCard(st *State, mt *types.Map, m *Term) *Term {
	_, _, ck := fc.mapKeys(mt)
	c := fc.tb.Select(fc.heapGet(st, ck, ArraySort("Ref", "Int")), m)
	return c
}

// mapGet: (value-or-zero, present). A nil map is empty.
func (fc *FnCtx) mapGet(st *State, mt *types.Map, m, k *Term) (*Term, *Term) {
	tb := fc.tb
	present := tb.And(tb.Not(tb.Eq(m, tb.Const("null", "Ref"))), tb.Select(fc.mapDom(st, mt, m), k))
	v := tb.Ite(present, tb.Select(fc.mapVals(st, mt, m), k), fc.so.Zero(mt.Elem()))
	return v, present
}

func (fc *FnCtx) lookup(in *ssa.Lookup, st *State) Val {
	tb := fc.tb
	x := fc.term(fc.val(in.X, st))
	k := fc.term(fc.val(in.Index, st))
	mt, isMap := types.Unalias(in.X.Type()).Underlying().(*types.Map)
	if !isMap {
		// string index
		fc.boundsCheck(st, tb.And(tb.Le(tb.Int(0), k), tb.Lt(k, tb.App("s_len", "Int", x))), "index")
		return tb.App("s_at", "Int", x, k)
	}
	v, present := fc.mapGet(st, mt, x, k)
	fc.assume(st, fc.so.InRange(v, mt.Elem()))
	fc.assumeWellFormed(st, v, mt.Elem())
	if in.CommaOk {
		return Tuple{v, present}
	}
	return v
}

func (fc *FnCtx) mapStore(st *State, mt *types.Map, m, k, v *Term) {
	tb := fc.tb
	dk, vk, ck := fc.mapKeys(mt)
	ks, vs := fc.so.Sort(mt.Key()), fc.so.Sort(mt.Elem())
	dm := fc.heapGet(st, dk, ArraySort("Ref", ArraySort(ks, "Bool")))
	vm := fc.heapGet(st, vk, ArraySort("Ref", ArraySort(ks, vs)))
	cm := fc.heapGet(st, ck, ArraySort("Ref", "Int"))
	was := tb.Select(tb.Select(dm, m), k)
	fc.heapSet(st, dk, tb.Store(dm, m, tb.Store(tb.Select(dm, m), k, tb.True())))
	fc.heapSet(st, vk, tb.Store(vm, m, tb.Store(tb.Select(vm, m), k, v)))
	fc.heapSet(st, ck, tb.Store(cm, m, tb.Add(tb.Select(cm, m), tb.Ite(was, tb.Int(0), tb.Int(1)))))
}

func (fc *FnCtx) mapDelete(st *State, mt *types.Map, m, k *Term) {
	tb := fc.tb
	dk, _, ck := fc.mapKeys(mt)
	ks := fc.so.Sort(mt.Key())
	dm := fc.heapGet(st, dk, ArraySort("Ref", ArraySort(ks, "Bool")))
	cm := fc.heapGet(st, ck, ArraySort("Ref", "Int"))
	isNil := tb.Eq(m, tb.Const("null", "Ref"))
	was := tb.And(tb.Not(isNil), tb.Select(tb.Select(dm, m), k))
	nd := tb.Store(dm, m, tb.Store(tb.Select(dm, m), k, tb.False()))
	fc.heapSet(st, dk, tb.Ite(isNil, dm, nd))
	fc.heapSet(st, ck, tb.Ite(was, tb.Store(cm, m, tb.Sub(tb.Select(cm, m), tb.Int(1))), cm))
}

func (fc *FnCtx) mapUpdate(in *ssa.MapUpdate, st *State) {
	tb := fc.tb
	m := fc.term(fc.val(in.Map, st))
	k := fc.term(fc.val(in.Key, st))
	v := fc.term(fc.val(in.Value, st))
	mt := types.Unalias(in.Map.Type()).Underlying().(*types.Map)
	fc.boundsCheck(st, tb.Not(tb.Eq(m, tb.Const("null", "Ref"))), "nilmap")
	fc.guardHook(st, "mapstore", fc.mapProvenance(in.Map), map[string]Val{"key": k, "val": v, "m": m}, map[string]types.Type{"key": mt.Key(), "val": mt.Elem(), "m": in.Map.Type()})
	fc.mapStore(st, mt, m, k, v)
}

// mapProvenance: "Type.field" if the map value was loaded from a struct field, else "".
func (fc *FnCtx) mapProvenance(v ssa.Value) string {
	if u, ok := v.(*ssa.UnOp); ok {
		if fa, ok := u.X.(*ssa.FieldAddr); ok {
			pt := types.Unalias(fa.X.Type()).Underlying().(*types.Pointer).Elem()
			s := pt.Underlying().(*types.Struct)
			n := typeName(pt)
			if i := lastDot(n); i >= 0 {
				n = n[i+1:]
			}
			return n + "." + s.Field(fa.Field).Name()
		}
	}
	return ""
}

func lastDot(s string) int {
	for i := len(s) - 1; i >= 0; i-- {
		if s[i] == '.' {
			return i
		}
	}
	return -1
}

// ---------- range

type rangeIter struct {
	isMap   bool
	mt      *types.Map
	m       *Term
	dom0    *Term
	visKey  string
	keySort string
}

func (fc *FnCtx) rangeInit(in *ssa.Range, st *State) Val {
	tb := fc.tb
	x := fc.term(fc.val(in.X, st))
	mt, isMap := types.Unalias(in.X.Type()).Underlying().(*types.Map)
	if !isMap {
		// range over a string by rune: abstracted (each step yields an unconstrained position within
		// the string and an unconstrained rune, or ends the iteration)
		fc.note("range over a string by rune in " + fc.fnName() + " is abstracted: position and rune of each step are unconstrained")
		fc.strIters[in] = x
		return tb.Const("iter!"+in.Name(), "Opaque")
	}
	ks := fc.so.Sort(mt.Key())
	visKey := fmt.Sprintf("iter:%s:%s", fc.fnName(), in.Name())
	fc.heapSet(st, visKey, tb.mk(kApp, "(as const "+ArraySort(ks, "Bool")+")", ArraySort(ks, "Bool"), tb.False()))
	dom0 := tb.Ite(tb.Eq(x, tb.Const("null", "Ref")), tb.mk(kApp, "(as const "+ArraySort(ks, "Bool")+")", ArraySort(ks, "Bool"), tb.False()), fc.mapDom(st, mt, x))
	// give dom0 a name so that the loop body can refer to the snapshot
	d0 := tb.Fresh("dom0", ArraySort(ks, "Bool"))
	fc.assume(st, tb.Eq(d0, dom0))
	fc.iters[in] = &rangeIter{isMap: true, mt: mt, m: x, dom0: d0, visKey: visKey, keySort: ks}
	return tb.Const("iter!"+in.Name(), "Opaque")
}

func (fc *FnCtx) rangeNext(in *ssa.Next, st *State) Val {
	tb := fc.tb
	if in.IsString {
		var str *Term
		if r, ok := in.Iter.(*ssa.Range); ok {
			str = fc.strIters[r]
		}
		okv := tb.Fresh("strnext_ok", "Bool")
		k := tb.Fresh("strnext_i", "Int")
		v := tb.Fresh("strnext_r", "Int")
		if str != nil {
			fc.assume(st, tb.Implies(okv, tb.And(tb.Le(tb.Int(0), k), tb.Lt(k, tb.App("s_len", "Int", str)))))
		}
		fc.assume(st, tb.And(tb.Le(tb.Int(0), v), tb.Le(v, tb.Int(0x10FFFF))))
		return Tuple{okv, k, v}
	}
	r, ok := in.Iter.(*ssa.Range)
	if !ok {
		fc.unsup("Next on unknown iterator")
	}
	it := fc.iters[r]
	if it == nil {
		fc.unsup("Next before Range")
	}
	vis := fc.heapGet(st, it.visKey, ArraySort(it.keySort, "Bool"))
	okv := tb.Fresh("next_ok", "Bool")
	k := tb.Fresh("next_k", it.keySort)
	domNow := fc.mapDom(st, it.mt, it.m)
	isNil := tb.Eq(it.m, tb.Const("null", "Ref"))
	fc.assume(st, tb.Implies(okv, tb.And(tb.Not(isNil), tb.Select(it.dom0, k), tb.Not(tb.Select(vis, k)), tb.Select(domNow, k))))
	q := tb.BoundVar("qk", it.keySort)
	fc.assume(st, tb.Implies(tb.Not(okv), tb.Or(isNil, tb.Quant(true, []*Term{q},
		tb.Implies(tb.And(tb.Select(it.dom0, q), tb.Select(domNow, q)), tb.Select(vis, q)), tb.Select(vis, q)))))
	fc.heapSet(st, it.visKey, tb.Ite(okv, tb.Store(vis, k, tb.True()), vis))
	v := tb.Select(fc.mapVals(st, it.mt, it.m), k)
	fc.assume(st, fc.so.InRange(k, it.mt.Key()))
	fc.assume(st, fc.so.InRange(v, it.mt.Elem()))
	fc.assumeWellFormed(st, v, it.mt.Elem())
	return Tuple{okv, k, v}
}
