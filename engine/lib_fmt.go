package govc

import "strings"

// fmt.Sprintf with a literal format made only of %d / %s / %v verbs over ints and strings is
// modelled as concatenation (T4); anything else yields an unconstrained string.
func init() {
	libModels["fmt.Sprintf"] = func(fc *FnCtx, st *State, args []Val) Val {
		tb := fc.tb
		for _, a := range args {
			fc.termNoEscape(a)
		}
		fresh := func() Val {
			fc.usedLib("fmt.Sprintf: returns an unconstrained string (format not modelled)")
			return tb.Fresh("sprintf", "Str")
		}
		if len(args) != 2 {
			return fresh()
		}
		ft, ok := args[0].(*Term)
		if !ok {
			return fresh()
		}
		format, ok := fc.litText[ft]
		if !ok {
			return fresh()
		}
		sl, ok := args[1].(*Term)
		if !ok || sl.Sort != "Slice" {
			return fresh()
		}
		// read the varargs array
		m := fc.heapGet(st, "E:Iface", ArraySort("Ref", ArraySort("Int", "Iface")))
		arr := tb.Select(m, tb.App("s_arr", "Ref", sl))
		var pieces []*Term
		argi := 0
		rest := format
		for len(rest) > 0 {
			i := strings.IndexByte(rest, '%')
			if i < 0 {
				pieces = append(pieces, fc.strLit(rest))
				break
			}
			if i > 0 {
				pieces = append(pieces, fc.strLit(rest[:i]))
			}
			if i+1 >= len(rest) {
				return fresh()
			}
			verb := rest[i+1]
			rest = rest[i+2:]
			if verb == '%' {
				pieces = append(pieces, fc.strLit("%"))
				continue
			}
			if verb != 'd' && verb != 's' && verb != 'v' {
				return fresh()
			}
			el := tb.Select(arr, tb.Add(tb.App("s_off", "Int", sl), tb.Int(int64(argi))))
			argi++
			if el.Kind != kApp || !strings.HasPrefix(el.Op, "box_") || len(el.Args) != 1 {
				return fresh()
			}
			v := el.Args[0]
			switch {
			case v.Sort == "Int" && (verb == 'd' || verb == 'v') && (el.Op == "box_int" || el.Op == "box_int64" || el.Op == "box_uint32" || el.Op == "box_uint64" || el.Op == "box_uint"):
				itoa := libModels["strconv.Itoa"](fc, st, []Val{v})
				pieces = append(pieces, itoa.(*Term))
			case v.Sort == "Str" && el.Op == "box_string" && (verb == 's' || verb == 'v'):
				pieces = append(pieces, v)
			default:
				return fresh()
			}
		}
		fc.usedLib("fmt.Sprintf with a literal %d/%s format is concatenation of the pieces (integers via strconv.Itoa)")
		if len(pieces) == 0 {
			return tb.Const("s_empty", "Str")
		}
		res := pieces[len(pieces)-1]
		for i := len(pieces) - 2; i >= 0; i-- {
			res = tb.App("s_cat", "Str", pieces[i], res)
		}
		return res
	}
}
