package govc

import (
	"go/types"
	"strings"
)

// resolveReads maps a reads entry ("Type.field", "nothing", raw "E:Int") to heap keys with sorts.
func (e *Engine) resolveReads(con *Contract, a string) map[string]string {
	out := map[string]string{}
	if a == "nothing" {
		return out
	}
	so := e.effSo
	if strings.Contains(a, ":") {
		// raw key: only element/cell keys carry their sort in the name
		switch {
		case strings.HasPrefix(a, "E:"):
			out[a] = ArraySort("Ref", ArraySort("Int", a[2:]))
		case strings.HasPrefix(a, "C:"):
			out[a] = ArraySort("Ref", a[2:])
		default:
			panic(unsupportedErr{"contract-stale: reads entry " + a + " of " + con.Key + " needs a Type.field form"})
		}
		return out
	}
	i := strings.LastIndex(a, ".")
	if i < 0 {
		panic(unsupportedErr{"contract-stale: cannot resolve reads entry " + a + " of " + con.Key})
	}
	tn, f := a[:i], a[i+1:]
	var pkgs []*types.Package
	if p := e.byPath[con.Pkg]; p != nil {
		pkgs = append(pkgs, p.Types)
	}
	if j := strings.LastIndex(tn, "."); j >= 0 {
		pn := tn[:j]
		tn = tn[j+1:]
		pkgs = nil
		for _, p := range e.prog.AllPackages() {
			if p.Pkg.Name() == pn || p.Pkg.Path() == pn {
				pkgs = append(pkgs, p.Pkg)
			}
		}
	}
	for _, p := range pkgs {
		obj := p.Scope().Lookup(tn)
		if obj == nil {
			continue
		}
		s, ok := isStructType(obj.Type())
		if !ok {
			continue
		}
		for k := 0; k < s.NumFields(); k++ {
			fl := s.Field(k)
			if fl.Name() != f && f != "*" {
				continue
			}
			if _, isS := isStructType(fl.Type()); isS {
				for kk, ss := range flatFieldKeySorts(so, fl.Type()) {
					out[kk] = ss
				}
				continue
			}
			out[fieldKey(obj.Type(), fl.Name())] = ArraySort("Ref", so.Sort(fl.Type()))
		}
		if len(out) > 0 {
			return out
		}
	}
	panic(unsupportedErr{"contract-stale: cannot resolve reads entry " + a + " of " + con.Key})
}
