package govc

import (
	"fmt"
	"go/constant"
	"go/token"
	"go/types"
	"strings"

	"golang.org/x/tools/go/ssa"
)

type blockResult struct {
	st   *State
	cond *Term
}

func (fc *FnCtx) execBlock(b *ssa.BasicBlock, st *State) *blockResult {
	st = st.clone()
	for _, in := range b.Instrs {
		fc.curInstr = in
		switch in := in.(type) {
		case *ssa.DebugRef:
			continue
		case *ssa.If:
			c := fc.term(fc.val(in.Cond, st))
			return &blockResult{st, c}
		case *ssa.Jump:
			return &blockResult{st, nil}
		case *ssa.Return:
			var vals []Val
			for _, r := range in.Results {
				vals = append(vals, fc.val(r, st))
			}
			fc.retStates = append(fc.retStates, st)
			fc.retVals = append(fc.retVals, vals)
			return nil
		case *ssa.Panic:
			if fc.con != nil && fc.con.NoPanic && !fc.pureMode {
				fc.oblige(st, "safety", fmt.Sprintf("%s#safety#panic@%s", fc.fnName(), fc.instrTag(in)), fc.tb.Not(st.reach), fc.eng.pos(in.Pos()), "explicit panic unreachable")
			}
			return nil
		default:
			fc.execInstr(in, st)
		}
	}
	return &blockResult{st, nil}
}

// instrTag is a position-independent-ish tag for an instruction (block comment + ordinal within kind).
func (fc *FnCtx) instrTag(in ssa.Instruction) string {
	b := in.Block()
	n := 0
	for _, x := range b.Instrs {
		if x == in {
			break
		}
		if fmt.Sprintf("%T", x) == fmt.Sprintf("%T", in) {
			n++
		}
	}
	return fmt.Sprintf("b%d.%d", b.Index, n)
}

func (fc *FnCtx) term(v Val) *Term {
	switch v := v.(type) {
	case *Term:
		return v
	case *Addr:
		return fc.addrToRef(v)
	case *Closure:
		return fc.tb.Fresh("closure", "Func")
	case *FuncRef:
		return fc.tb.Const("fn!"+v.Fn.String(), "Func")
	case nil:
		fc.unsup("nil value")
	}
	fc.unsup("value %T is not a term", v)
	return nil
}

// addrToRef materialises a static address as a first-class pointer.
func (fc *FnCtx) addrToRef(a *Addr) *Term {
	if a.Kind == aHeap && len(a.Path) == 0 && (strings.HasPrefix(a.Key, "C:") || strings.HasPrefix(a.Key, "E:")) {
		return a.Ref
	}
	// pointer to an element of a slice/array of scalars: a first-class reference elem!T(arr, idx); loads and
	// stores through pointers of that type then distinguish element pointers from cell pointers by tag
	if a.Kind == aElem && len(a.Path) == 0 {
		if _, isS := isStructType(a.RootType); !isS {
			es := fc.so.Sort(a.RootType)
			if fc.eptr == nil {
				fc.eptr = map[string]types.Type{}
			}
			if _, ok := fc.eptr[es]; !ok {
				fc.eptr[es] = a.RootType
				fc.newKey = true
			}
			return fc.elemRef(a.Ref, a.Idx, a.RootType)
		}
	}
	// interior pointer: fresh, and remember that the root may be written through it
	r := fc.tb.Fresh("iptr", "Ref")
	fc.hyps = append(fc.hyps, fc.tb.Not(fc.tb.Eq(r, fc.tb.Const("null", "Ref")))) // an address is never nil
	switch a.Kind {
	case aHeap, aElem, aGlobal:
		fc.escapedRoots = append(fc.escapedRoots, a.Key)
		fc.note("interior pointer passed out in " + fc.fnName() + " (root " + a.Key + " havocked at the next call)")
	case aLocal:
		fc.unsup("address of non-escaping local used as value")
	}
	return r
}

// val returns the symbolic value of an SSA value.
func (fc *FnCtx) val(v ssa.Value, st *State) Val {
	switch v := v.(type) {
	case *ssa.Const:
		return fc.constVal(v)
	case *ssa.Global:
		return fc.globalAddr(v)
	case *ssa.Function:
		return &FuncRef{v}
	case *ssa.Builtin:
		fc.unsup("builtin as value")
	}
	if r, ok := fc.regs[v]; ok {
		return r
	}
	fc.unsup("use of undefined register %s", v.Name())
	return nil
}

func (fc *FnCtx) constVal(c *ssa.Const) Val {
	tb := fc.tb
	t := c.Type()
	if c.Value == nil {
		return fc.so.Zero(t)
	}
	switch c.Value.Kind() {
	case constant.Bool:
		return tb.Bool(constant.BoolVal(c.Value))
	case constant.Int:
		return tb.BigInt(c.Value.ExactString())
	case constant.String:
		return fc.strLit(constant.StringVal(c.Value))
	case constant.Float:
		if fc.so.Sort(t) == "Int" {
			return tb.BigInt(c.Value.ExactString())
		}
		f, _ := constant.Float64Val(c.Value)
		return tb.Lit(fmt.Sprintf("%f", f), "Real")
	}
	fc.unsup("constant kind %v", c.Value.Kind())
	return nil
}

// strLit returns the constant for a string literal with its length and bytes axiomatised.
func (fc *FnCtx) strLit(s string) *Term {
	tb := fc.tb
	if s == "" {
		return tb.Const("s_empty", "Str")
	}
	name := fmt.Sprintf("lit!%x", s)
	if len(name) > 60 {
		name = fmt.Sprintf("lit!%x!%d", hashString(s), len(s))
	}
	c := tb.Const(name, "Str")
	if fc.litText == nil {
		fc.litText = map[*Term]string{}
	}
	fc.litText[c] = s
	var facts []*Term
	facts = append(facts, tb.Eq(tb.App("s_len", "Int", c), tb.Int(int64(len(s)))))
	for i := 0; i < len(s) && i < 64; i++ {
		facts = append(facts, tb.Eq(tb.App("s_at", "Int", c, tb.Int(int64(i))), tb.Int(int64(s[i]))))
	}
	tb.AddAxiom("lit", tb.And(facts...))
	return c
}

func (fc *FnCtx) globalAddr(g *ssa.Global) *Addr {
	pt := g.Type().(*types.Pointer).Elem()
	key := "G:" + g.String()
	fc.eng.noteGlobal(fc, g)
	return &Addr{Kind: aGlobal, Key: key, RootType: pt, Type: pt}
}

// ---------- addresses

func (fc *FnCtx) loadRoot(a *Addr, st *State) *Term {
	tb := fc.tb
	switch a.Kind {
	case aLocal:
		v, ok := st.cells[a.Alloc]
		if !ok {
			v = fc.so.Zero(a.RootType)
			st.cells[a.Alloc] = v
		}
		return v
	case aGlobal:
		srt := fc.so.Sort(a.RootType)
		v := fc.heapGet(st, a.Key, srt)
		return v
	case aHeap:
		srt := fc.so.Sort(a.RootType)
		m := fc.heapGet(st, a.Key, ArraySort("Ref", srt))
		if et, ok := fc.eptr[srt]; ok && a.Key == "C:"+srt {
			fn := fc.so.ElemFn(et)
			em := fc.heapGet(st, "E:"+srt, ArraySort("Ref", ArraySort("Int", srt)))
			isElem := tb.Eq(tb.App("emb_tag", "Int", a.Ref), tb.Int(int64(fc.so.embIDs[fn])))
			return tb.Ite(isElem, tb.Select(tb.Select(em, tb.App("unarr"+fn, "Ref", a.Ref)), tb.App("unidx"+fn, "Int", a.Ref)), tb.Select(m, a.Ref))
		}
		return tb.Select(m, a.Ref)
	case aElem:
		srt := fc.so.Sort(a.RootType)
		m := fc.heapGet(st, a.Key, ArraySort("Ref", ArraySort("Int", srt)))
		return tb.Select(tb.Select(m, a.Ref), a.Idx)
	}
	panic("bad addr")
}

func (fc *FnCtx) storeRoot(a *Addr, st *State, v *Term) {
	tb := fc.tb
	switch a.Kind {
	case aLocal:
		st.cells[a.Alloc] = v
	case aGlobal:
		fc.heapSet(st, a.Key, v)
	case aHeap:
		srt := fc.so.Sort(a.RootType)
		m := fc.heapGet(st, a.Key, ArraySort("Ref", srt))
		if et, ok := fc.eptr[srt]; ok && a.Key == "C:"+srt {
			fn := fc.so.ElemFn(et)
			em := fc.heapGet(st, "E:"+srt, ArraySort("Ref", ArraySort("Int", srt)))
			isElem := tb.Eq(tb.App("emb_tag", "Int", a.Ref), tb.Int(int64(fc.so.embIDs[fn])))
			arr, idx := tb.App("unarr"+fn, "Ref", a.Ref), tb.App("unidx"+fn, "Int", a.Ref)
			fc.heapSet(st, "E:"+srt, tb.Ite(isElem, tb.Store(em, arr, tb.Store(tb.Select(em, arr), idx, v)), em))
			fc.heapSet(st, a.Key, tb.Ite(isElem, m, tb.Store(m, a.Ref, v)))
			return
		}
		fc.heapSet(st, a.Key, tb.Store(m, a.Ref, v))
	case aElem:
		srt := fc.so.Sort(a.RootType)
		m := fc.heapGet(st, a.Key, ArraySort("Ref", ArraySort("Int", srt)))
		inner := tb.Select(m, a.Ref)
		fc.heapSet(st, a.Key, tb.Store(m, a.Ref, tb.Store(inner, a.Idx, v)))
	}
}

func (fc *FnCtx) project(root *Term, path []PathStep) *Term {
	tb := fc.tb
	v := root
	for _, s := range path {
		if s.IsIndex {
			v = tb.Select(v, s.Index)
		} else {
			srt := fc.so.Sort(s.StructT)
			f := s.Struct.Field(s.Field)
			v = tb.App(fc.so.FieldAcc(srt, f.Name(), s.Field), fc.so.Sort(f.Type()), v)
		}
	}
	return v
}

func (fc *FnCtx) update(root *Term, path []PathStep, nv *Term) *Term {
	tb := fc.tb
	if len(path) == 0 {
		return nv
	}
	s := path[0]
	if s.IsIndex {
		return tb.Store(root, s.Index, fc.update(tb.Select(root, s.Index), path[1:], nv))
	}
	srt := fc.so.Sort(s.StructT)
	var args []*Term
	for i := 0; i < s.Struct.NumFields(); i++ {
		f := s.Struct.Field(i)
		fv := tb.App(fc.so.FieldAcc(srt, f.Name(), i), fc.so.Sort(f.Type()), root)
		if i == s.Field {
			fv = fc.update(fv, path[1:], nv)
		}
		args = append(args, fv)
	}
	return tb.App("mk_"+srt, srt, args...)
}

func isStructType(t types.Type) (*types.Struct, bool) {
	t = types.Unalias(t)
	if isTimeTime(t) {
		return nil, false
	}
	s, ok := t.Underlying().(*types.Struct)
	return s, ok
}

// load reads the value at an address.
func (fc *FnCtx) load(a *Addr, st *State) *Term {
	if a.Kind == aHeap && a.Key == "OBJ" {
		// whole struct object behind a pointer: assemble from field maps
		return fc.loadStructObj(a.Ref, a.Type, st)
	}
	root := fc.loadRoot(a, st)
	v := fc.project(root, a.Path)
	if a.Kind != aLocal {
		fc.assume(st, fc.so.InRange(v, a.Type))
		fc.assumeWellFormed(st, v, a.Type)
	}
	return v
}

func (fc *FnCtx) loadStructObj(ref *Term, t types.Type, st *State) *Term {
	s, _ := isStructType(t)
	srt := fc.so.Sort(t)
	var args []*Term
	for i := 0; i < s.NumFields(); i++ {
		args = append(args, fc.loadObjField(ref, t, i, st))
	}
	if len(args) == 0 {
		return fc.tb.App("mk_"+srt, srt) // nullary constructor of the datatype (not a declared constant)
	}
	return fc.tb.App("mk_"+srt, srt, args...)
}

func (fc *FnCtx) store(a *Addr, st *State, v *Term) {
	if a.Kind == aHeap && a.Key == "OBJ" {
		s, _ := isStructType(a.Type)
		srt := fc.so.Sort(a.Type)
		for i := 0; i < s.NumFields(); i++ {
			f := s.Field(i)
			fv := fc.tb.App(fc.so.FieldAcc(srt, f.Name(), i), fc.so.Sort(f.Type()), v)
			fc.storeObjField(a.Ref, a.Type, i, st, fv)
		}
		return
	}
	fc.storeChecked(a, st, v)
}

func (fc *FnCtx) storeChecked(a *Addr, st *State, v *Term) {
	if a.Kind == aHeap && strings.HasPrefix(a.Key, "H:") && !fc.pureMode {
		fc.fieldWriteHook(a, st, v)
	}
	if len(a.Path) == 0 {
		fc.storeRoot(a, st, v)
		return
	}
	root := fc.loadRoot(a, st)
	fc.storeRoot(a, st, fc.update(root, a.Path, v))
}

// ptrAddr turns a pointer value into an address of its pointee.
func (fc *FnCtx) ptrAddr(v Val, ptrType types.Type, st *State) *Addr {
	switch v := v.(type) {
	case *Addr:
		return v
	case *Term:
		pt, ok := types.Unalias(ptrType).Underlying().(*types.Pointer)
		if !ok {
			fc.unsup("deref of non-pointer type %s", ptrType)
		}
		elem := pt.Elem()
		fc.derefCheck(v, st)
		if _, isS := isStructType(elem); isS {
			return &Addr{Kind: aHeap, Ref: v, Key: "OBJ", RootType: elem, Type: elem}
		}
		return &Addr{Kind: aHeap, Ref: v, Key: fc.cellKey(elem), RootType: elem, Type: elem}
	}
	fc.unsup("deref of %T", v)
	return nil
}

// cellKey: heap key for the pointee of a non-struct pointer. Arrays share the element maps of slices.
func (fc *FnCtx) cellKey(t types.Type) string {
	if at, ok := types.Unalias(t).Underlying().(*types.Array); ok {
		return "E:" + fc.so.Sort(at.Elem())
	}
	return "C:" + fc.so.Sort(t)
}

func (fc *FnCtx) derefCheck(p *Term, st *State) {
	nn := fc.tb.Not(fc.tb.Eq(p, fc.tb.Const("null", "Ref")))
	if fc.con != nil && fc.con.NoPanic && !fc.pureMode {
		fc.oblige(st, "safety", fmt.Sprintf("%s#safety#nil@%s", fc.fnName(), fc.instrTag(fc.curInstr)), nn, fc.eng.pos(fc.curInstr.Pos()), "nil dereference")
	} else {
		fc.assume(st, nn)
	}
}

func (fc *FnCtx) boundsCheck(st *State, ok *Term, what string) {
	if fc.con != nil && fc.con.NoPanic && !fc.pureMode {
		fc.oblige(st, "safety", fmt.Sprintf("%s#safety#%s@%s", fc.fnName(), what, fc.instrTag(fc.curInstr)), ok, fc.eng.pos(fc.curInstr.Pos()), what+" in bounds")
	} else {
		fc.assume(st, ok)
	}
}

// ---------- instructions

func (fc *FnCtx) execInstr(in ssa.Instruction, st *State) {
	tb := fc.tb
	switch in := in.(type) {
	case *ssa.Alloc:
		et := in.Type().(*types.Pointer).Elem()
		if !in.Heap {
			st.cells[in] = fc.so.Zero(et)
			fc.regs[in] = &Addr{Kind: aLocal, Alloc: in, RootType: et, Type: et}
			if in.Comment != "" {
				fc.cellNames[in.Comment] = appendUnique(fc.cellNames[in.Comment], in)
			}
			return
		}
		r := fc.freshObject(st, et, in.Comment)
		if _, isS := isStructType(et); isS {
			fc.regs[in] = r
		} else {
			fc.regs[in] = &Addr{Kind: aHeap, Ref: r, Key: fc.cellKey(et), RootType: et, Type: et}
		}
		if in.Comment != "" {
			fc.cellNames[in.Comment] = appendUnique(fc.cellNames[in.Comment], in)
		}
	case *ssa.Store:
		a := fc.ptrAddr(fc.val(in.Addr, st), in.Addr.Type(), st)
		v := fc.term(fc.val(in.Val, st))
		if a.Kind != aLocal {
			fc.noteEptrLeak(in.Val.Type())
		}
		fc.store(a, st, v)
	case *ssa.UnOp:
		fc.regs[in] = fc.unop(in, st)
	case *ssa.BinOp:
		x := fc.term(fc.val(in.X, st))
		y := fc.term(fc.val(in.Y, st))
		fc.regs[in] = fc.binop(in.Op, x, y, in.X.Type(), in.Type(), st)
	case *ssa.FieldAddr:
		base := fc.val(in.X, st)
		pt := types.Unalias(in.X.Type()).Underlying().(*types.Pointer).Elem()
		s, _ := pt.Underlying().(*types.Struct)
		f := s.Field(in.Field)
		switch b := base.(type) {
		case *Addr:
			if b.Kind == aHeap && b.Key == "OBJ" {
				fc.regs[in] = fc.heapFieldAddr(b.Ref, pt, in.Field)
				return
			}
			na := *b
			na.Path = append(append([]PathStep{}, b.Path...), PathStep{Field: in.Field, Struct: s, StructT: pt})
			na.Type = f.Type()
			fc.regs[in] = &na
		case *Term:
			fc.derefCheck(b, st)
			fc.regs[in] = fc.heapFieldAddr(b, pt, in.Field)
		default:
			fc.unsup("FieldAddr base %T", base)
		}
	case *ssa.Field:
		x := fc.term(fc.val(in.X, st))
		s := types.Unalias(in.X.Type()).Underlying().(*types.Struct)
		f := s.Field(in.Field)
		srt := fc.so.Sort(in.X.Type())
		fc.regs[in] = tb.App(fc.so.FieldAcc(srt, f.Name(), in.Field), fc.so.Sort(f.Type()), x)
	case *ssa.IndexAddr:
		fc.regs[in] = fc.indexAddr(in, st)
	case *ssa.Index:
		x := fc.term(fc.val(in.X, st))
		i := fc.term(fc.val(in.Index, st))
		switch xt := types.Unalias(in.X.Type()).Underlying().(type) {
		case *types.Array:
			fc.boundsCheck(st, tb.And(tb.Le(tb.Int(0), i), tb.Lt(i, tb.Int(xt.Len()))), "index")
			fc.regs[in] = tb.Select(x, i)
		case *types.Basic: // string
			fc.boundsCheck(st, tb.And(tb.Le(tb.Int(0), i), tb.Lt(i, tb.App("s_len", "Int", x))), "index")
			fc.regs[in] = tb.App("s_at", "Int", x, i)
		default:
			fc.unsup("Index on %s", in.X.Type())
		}
	case *ssa.Lookup:
		fc.regs[in] = fc.lookup(in, st)
	case *ssa.Slice:
		fc.regs[in] = fc.sliceOp(in, st)
	case *ssa.Call:
		fc.regs[in] = fc.call(in, &in.Call, st)
	case *ssa.Extract:
		tup, ok := fc.val(in.Tuple, st).(Tuple)
		if !ok {
			fc.unsup("Extract from non-tuple")
		}
		fc.regs[in] = tup[in.Index]
	case *ssa.Phi:
		// naive form: only for && / ||; value depends on the incoming edge
		var v *Term
		for i := len(in.Edges) - 1; i >= 0; i-- {
			ev := fc.term(fc.val(in.Edges[i], st))
			if v == nil {
				v = ev
				continue
			}
			pc := fc.edgeReach(in.Block().Preds[i], in.Block())
			v = tb.Ite(pc, ev, v)
		}
		fc.regs[in] = v
	case *ssa.MakeInterface:
		x := fc.term(fc.val(in.X, st))
		box, _ := fc.so.BoxFns(in.X.Type())
		fc.regs[in] = tb.App(box, "Iface", x)
	case *ssa.ChangeInterface:
		fc.regs[in] = fc.val(in.X, st)
	case *ssa.ChangeType:
		fc.regs[in] = fc.val(in.X, st)
	case *ssa.Convert:
		fc.regs[in] = fc.convert(in, st)
	case *ssa.TypeAssert:
		fc.regs[in] = fc.typeAssert(in, st)
	case *ssa.MakeClosure:
		var bs []Val
		for _, b := range in.Bindings {
			bs = append(bs, fc.val(b, st))
		}
		fc.regs[in] = &Closure{Fn: in.Fn.(*ssa.Function), Bindings: bs}
	case *ssa.MakeMap:
		r := fc.freshRef(st, "map")
		mt := types.Unalias(in.Type()).Underlying().(*types.Map)
		dk, vk, ck := fc.mapKeys(mt)
		ks, vs := fc.so.Sort(mt.Key()), fc.so.Sort(mt.Elem())
		d := fc.heapGet(st, dk, ArraySort("Ref", ArraySort(ks, "Bool")))
		fc.heapSet(st, dk, tb.Store(d, r, tb.ConstArray(ks, "Bool", tb.False())))
		v := fc.heapGet(st, vk, ArraySort("Ref", ArraySort(ks, vs)))
		fc.heapSet(st, vk, tb.Store(v, r, tb.ConstArray(ks, vs, fc.so.Zero(mt.Elem()))))
		c := fc.heapGet(st, ck, ArraySort("Ref", "Int"))
		fc.heapSet(st, ck, tb.Store(c, r, tb.Int(0)))
		fc.regs[in] = r
	case *ssa.MakeSlice:
		ln := fc.term(fc.val(in.Len, st))
		cp := fc.term(fc.val(in.Cap, st))
		fc.boundsCheck(st, tb.And(tb.Le(tb.Int(0), ln), tb.Le(ln, cp)), "makeslice")
		r := fc.freshRef(st, "arr")
		et := types.Unalias(in.Type()).Underlying().(*types.Slice).Elem()
		if structElems(et) {
			fc.assumeZeroElems(st, r, et)
			fc.regs[in] = tb.App("mk_slice", "Slice", r, tb.Int(0), ln, cp)
			return
		}
		es := fc.so.Sort(et)
		key := "E:" + es
		m := fc.heapGet(st, key, ArraySort("Ref", ArraySort("Int", es)))
		fc.heapSet(st, key, tb.Store(m, r, tb.ConstArray("Int", es, fc.so.Zero(et))))
		fc.regs[in] = tb.App("mk_slice", "Slice", r, tb.Int(0), ln, cp)
	case *ssa.MapUpdate:
		fc.mapUpdate(in, st)
	case *ssa.Range:
		fc.regs[in] = fc.rangeInit(in, st)
	case *ssa.Next:
		fc.regs[in] = fc.rangeNext(in, st)
	case *ssa.Defer:
		var args []Val
		for _, a := range in.Call.Args {
			args = append(args, fc.val(a, st))
		}
		if in.Block() != fc.fn.Blocks[0] && fc.inAnyLoop(in.Block()) {
			// a defer inside a loop runs an unknown number of times at function exit: over-approximated
			// by "anything may have been written" when the deferred calls run
			fc.loopDefer = true
			fc.note("defer inside a loop in " + fc.fnName() + ": the deferred calls are abstracted by a full havoc at function exit")
			return
		}
		fc.defers = append(fc.defers, &deferRec{cond: st.reach, call: &in.Call, args: args, instr: in})
	case *ssa.RunDefers:
		if fc.loopDefer {
			fc.havocAll(st)
			fc.growAlloc(st)
		}
		for i := len(fc.defers) - 1; i >= 0; i-- {
			d := fc.defers[i]
			fc.runDefer(d, st)
		}
	case *ssa.Go:
		fc.unsup("go statement")
	case *ssa.Select:
		if in.Blocking {
			fc.unsup("blocking select statement")
		}
		// non-blocking select (select with default): which case fires is not modelled; the
		// result is an arbitrary case index (-1 = default) and arbitrary received values
		idx := tb.Fresh("select_idx", "Int")
		fc.assume(st, tb.And(tb.Le(tb.Int(-1), idx), tb.Lt(idx, tb.Int(int64(len(in.States))))))
		tup := Tuple{idx, tb.Fresh("select_ok", "Bool")}
		for _, s := range in.States {
			if s.Dir == types.RecvOnly {
				et := types.Unalias(s.Chan.Type()).Underlying().(*types.Chan).Elem()
				tup = append(tup, tb.Fresh("select_recv", fc.so.Sort(et)))
			}
		}
		fc.note("non-blocking select in " + fc.fnName() + ": the case taken is arbitrary (channels are not modelled)")
		fc.regs[in] = tup
	case *ssa.Send:
		fc.unsup("channel send")
	case *ssa.MakeChan:
		fc.regs[in] = fc.freshRef(st, "chan")
	default:
		fc.unsup("instruction %T", in)
	}
}

func appendUnique(xs []*ssa.Alloc, a *ssa.Alloc) []*ssa.Alloc {
	for _, x := range xs {
		if x == a {
			return xs
		}
	}
	return append(xs, a)
}

func (fc *FnCtx) inAnyLoop(b *ssa.BasicBlock) bool {
	for _, li := range fc.loopList {
		if li.blocks[b] {
			return true
		}
	}
	return false
}

// edgeReach is only used for Phi; recompute from recorded per-edge conditions is not
// available here, so approximate by "control came from pred": we keep a per-edge
// boolean recorded in execAll via fc.edgeConds.
func (fc *FnCtx) edgeReach(from, to *ssa.BasicBlock) *Term {
	if c, ok := fc.edges[[2]int{from.Index, to.Index}]; ok {
		return c
	}
	return fc.tb.False()
}

func (fc *FnCtx) freshRef(st *State, hint string) *Term {
	tb := fc.tb
	r := tb.Fresh(hint, "Ref")
	al := fc.heapGet(st, "alloc", ArraySort("Ref", "Bool"))
	tb.DeclFun("emb_tag", []string{"Ref"}, "Int")
	fc.assume(st, tb.And(tb.Not(tb.Eq(r, tb.Const("null", "Ref"))), tb.Not(tb.Select(al, r)), tb.Eq(tb.App("emb_tag", "Int", r), tb.Int(0)), tb.Eq(fc.objBase(r), r)))
	fc.heapSet(st, "alloc", tb.Store(al, r, tb.True()))
	return r
}

// freshObject allocates a zeroed object of type t and returns its reference.
func (fc *FnCtx) freshObject(st *State, t types.Type, hint string) *Term {
	r := fc.freshRef(st, "new_"+hint)
	if _, isS := isStructType(t); isS {
		fc.zeroObj(st, r, t)
	} else {
		if at, isArr := types.Unalias(t).Underlying().(*types.Array); isArr && structElems(at.Elem()) {
			fc.assumeZeroElems(st, r, at.Elem())
			return r
		}
		a := &Addr{Kind: aHeap, Ref: r, Key: fc.cellKey(t), RootType: t, Type: t}
		fc.storeRoot(a, st, fc.so.Zero(t))
	}
	return r
}

func (fc *FnCtx) unop(in *ssa.UnOp, st *State) Val {
	tb := fc.tb
	switch in.Op {
	case token.MUL:
		if g, ok := in.X.(*ssa.Global); ok {
			// a `var:NAME` contract on the variable takes precedence over resolving it to its initialiser
			hasVarContract := g.Pkg != nil && fc.eng.cs.ByKey[g.Pkg.Pkg.Path()+"::var:"+g.Name()] != nil
			if !hasVarContract {
				if fn := fc.eng.constFuncGlobal(fc, g); fn != nil {
					return &FuncRef{fn}
				}
			}
		}
		if al, ok := in.X.(*ssa.Alloc); ok {
			// a function variable assigned once with a func literal denotes that literal
			if mc := uniqueClosureStore(al); mc != nil {
				if cl, ok := fc.regs[mc].(*Closure); ok {
					return cl
				}
			}
		}
		a := fc.ptrAddr(fc.val(in.X, st), in.X.Type(), st)
		v := fc.load(a, st)
		if v.Sort == "Ref" && a.Kind != aLocal {
			al := fc.heapGet(st, "alloc", ArraySort("Ref", "Bool"))
			_ = al
			fc.assume(st, fc.alive(st, v))
		}
		return v
	case token.NOT:
		return tb.Not(fc.term(fc.val(in.X, st)))
	case token.SUB:
		x := fc.term(fc.val(in.X, st))
		if x.Sort == "Real" {
			return tb.App("-", "Real", x)
		}
		return fc.arithResult(tb.Sub(tb.Int(0), x), in.Type(), st, "neg")
	case token.XOR:
		x := fc.term(fc.val(in.X, st))
		fn := tb.DeclFun("bitnot", []string{"Int"}, "Int")
		return tb.App(fn, "Int", x)
	case token.ARROW:
		fc.unsup("channel receive")
	}
	fc.unsup("unop %s", in.Op)
	return nil
}

// arithResult applies the function's arithmetic mode to a mathematical result.
func (fc *FnCtx) arithResult(math *Term, t types.Type, st *State, what string) *Term {
	tb := fc.tb
	lo, hi, ok := intRange(t)
	if !ok {
		return math
	}
	if _, isLit := litInt(math); isLit {
		return math
	}
	inr := tb.And(tb.Le(tb.BigInt(lo), math), tb.Le(math, tb.BigInt(hi)))
	switch fc.arith {
	case "checked":
		if !fc.pureMode {
			fc.oblige(st, "safety", fmt.Sprintf("%s#safety#overflow-%s@%s", fc.fnName(), what, fc.instrTag(fc.curInstr)), inr, fc.eng.pos(fc.curInstr.Pos()), "no overflow in "+what)
		}
		return math
	case "wrap":
		bits, signed := intBits(t)
		mod := tb.BigInt(pow2(bits))
		if !signed {
			return tb.App("mod", "Int", math, mod)
		}
		half := tb.BigInt(pow2(bits - 1))
		return tb.Sub(tb.App("mod", "Int", tb.Add(math, half), mod), half)
	default:
		if !fc.pureMode {
			fc.assume(st, inr)
			fc.note("arith math: integer operations in " + fc.fnName() + " assumed not to overflow")
		}
		return math
	}
}

func pow2(n int) string {
	switch n {
	case 7:
		return "128"
	case 8:
		return "256"
	case 15:
		return "32768"
	case 16:
		return "65536"
	case 31:
		return "2147483648"
	case 32:
		return "4294967296"
	case 63:
		return "9223372036854775808"
	case 64:
		return "18446744073709551616"
	}
	panic("pow2")
}

func (fc *FnCtx) binop(op token.Token, x, y *Term, xt, rt types.Type, st *State) Val {
	tb := fc.tb
	switch op {
	case token.EQL:
		return fc.equal(x, y, xt)
	case token.NEQ:
		return tb.Not(fc.equal(x, y, xt))
	}
	if x.Sort == "Str" {
		switch op {
		case token.ADD:
			return tb.App("s_cat", "Str", x, y)
		case token.LSS, token.GTR, token.LEQ, token.GEQ:
			lt := tb.DeclFun("s_lt", []string{"Str", "Str"}, "Bool")
			switch op {
			case token.LSS:
				return tb.App(lt, "Bool", x, y)
			case token.GTR:
				return tb.App(lt, "Bool", y, x)
			case token.LEQ:
				return tb.Not(tb.App(lt, "Bool", y, x))
			default:
				return tb.Not(tb.App(lt, "Bool", x, y))
			}
		}
	}
	if x.Sort == "Real" {
		switch op {
		case token.ADD, token.SUB, token.MUL, token.QUO:
			o := map[token.Token]string{token.ADD: "+", token.SUB: "-", token.MUL: "*", token.QUO: "/"}[op]
			return tb.App(o, "Real", x, y)
		case token.LSS:
			return tb.App("<", "Bool", x, y)
		case token.LEQ:
			return tb.App("<=", "Bool", x, y)
		case token.GTR:
			return tb.App(">", "Bool", x, y)
		case token.GEQ:
			return tb.App(">=", "Bool", x, y)
		}
	}
	if x.Sort == "Bool" {
		switch op {
		case token.AND:
			return tb.And(x, y)
		case token.OR:
			return tb.Or(x, y)
		}
	}
	if x.Sort != "Int" {
		fc.unsup("binop %s on sort %s", op, x.Sort)
	}
	switch op {
	case token.LSS:
		return tb.Lt(x, y)
	case token.LEQ:
		return tb.Le(x, y)
	case token.GTR:
		return tb.Gt(x, y)
	case token.GEQ:
		return tb.Ge(x, y)
	case token.ADD:
		return fc.arithResult(tb.Add(x, y), rt, st, "add")
	case token.SUB:
		return fc.arithResult(tb.Sub(x, y), rt, st, "sub")
	case token.MUL:
		return fc.arithResult(tb.Mul(x, y), rt, st, "mul")
	case token.QUO:
		fc.boundsCheck(st, tb.Not(tb.Eq(y, tb.Int(0))), "divzero")
		if yl, ok := litInt(y); ok && yl > 0 {
			// x/c: truncated division with positive constant divisor
			d := tb.App("div", "Int", x, y)
			return tb.Ite(tb.Or(tb.Ge(x, tb.Int(0)), tb.Eq(tb.App("mod", "Int", x, y), tb.Int(0))), d, tb.Add(d, tb.Int(1)))
		}
		return tb.App("godiv", "Int", x, y)
	case token.REM:
		fc.boundsCheck(st, tb.Not(tb.Eq(y, tb.Int(0))), "divzero")
		if yl, ok := litInt(y); ok && yl > 0 {
			m := tb.App("mod", "Int", x, y)
			return tb.Ite(tb.Or(tb.Ge(x, tb.Int(0)), tb.Eq(m, tb.Int(0))), m, tb.Sub(m, y))
		}
		return tb.App("gomod", "Int", x, y)
	case token.AND, token.OR, token.XOR, token.SHL, token.SHR, token.AND_NOT:
		name := map[token.Token]string{token.AND: "bitand", token.OR: "bitor", token.XOR: "bitxor", token.SHL: "shl", token.SHR: "shr", token.AND_NOT: "bitandnot"}[op]
		if op == token.SHL {
			if k, ok := litInt(y); ok && k >= 0 && k < 62 {
				return fc.arithResult(tb.Mul(x, tb.Int(1<<uint(k))), rt, st, "shl")
			}
		}
		if op == token.SHR {
			if k, ok := litInt(y); ok && k >= 0 && k < 62 {
				return tb.App("div", "Int", x, tb.Int(1<<uint(k)))
			}
		}
		fn := tb.DeclFun(name, []string{"Int", "Int"}, "Int")
		r := tb.App(fn, "Int", x, y)
		fc.assume(st, fc.so.InRange(r, rt))
		if op == token.AND {
			// x & y <= both when non-negative
			fc.assume(st, tb.Implies(tb.And(tb.Ge(x, tb.Int(0)), tb.Ge(y, tb.Int(0))), tb.And(tb.Ge(r, tb.Int(0)), tb.Le(r, x), tb.Le(r, y))))
		}
		return r
	}
	fc.unsup("binop %s", op)
	return nil
}

// equal: Go == on values of static type t.
func (fc *FnCtx) equal(x, y *Term, t types.Type) *Term {
	tb := fc.tb
	if x.Sort != y.Sort {
		// comparing interface with concrete value etc. is resolved by ssa (MakeInterface) already
		fc.unsup("== on different sorts %s %s", x.Sort, y.Sort)
	}
	if x.Sort == "Slice" {
		// only comparison with nil is legal
		return tb.Eq(tb.App("s_arr", "Ref", x), tb.App("s_arr", "Ref", y))
	}
	return tb.Eq(x, y)
}

func (fc *FnCtx) indexAddr(in *ssa.IndexAddr, st *State) Val {
	tb := fc.tb
	i := fc.term(fc.val(in.Index, st))
	switch xt := types.Unalias(in.X.Type()).Underlying().(type) {
	case *types.Slice:
		s := fc.term(fc.val(in.X, st))
		ln := tb.App("s_len", "Int", s)
		fc.boundsCheck(st, tb.And(tb.Le(tb.Int(0), i), tb.Lt(i, ln)), "index")
		if structElems(xt.Elem()) {
			// element objects: &s[i] is a reference of its own
			return fc.elemRef(tb.App("s_arr", "Ref", s), tb.SIdx(tb.App("s_off", "Int", s), i), xt.Elem())
		}
		es := fc.so.Sort(xt.Elem())
		return &Addr{Kind: aElem, Ref: tb.App("s_arr", "Ref", s), Key: "E:" + es, Idx: tb.SIdx(tb.App("s_off", "Int", s), i), RootType: xt.Elem(), Type: xt.Elem()}
	case *types.Pointer: // pointer to array
		at := types.Unalias(xt.Elem()).Underlying().(*types.Array)
		fc.boundsCheck(st, tb.And(tb.Le(tb.Int(0), i), tb.Lt(i, tb.Int(at.Len()))), "index")
		base := fc.ptrAddr(fc.val(in.X, st), in.X.Type(), st)
		if structElems(at.Elem()) && base.Kind == aHeap && len(base.Path) == 0 && strings.HasPrefix(base.Key, "E:") {
			return fc.elemRef(base.Ref, i, at.Elem())
		}
		na := *base
		na.Path = append(append([]PathStep{}, base.Path...), PathStep{IsIndex: true, Index: i, ElemType: at.Elem()})
		na.Type = at.Elem()
		return &na
	}
	fc.unsup("IndexAddr on %s", in.X.Type())
	return nil
}

func (fc *FnCtx) sliceOp(in *ssa.Slice, st *State) Val {
	tb := fc.tb
	var lo, hi, mx *Term
	if in.Low != nil {
		lo = fc.term(fc.val(in.Low, st))
	} else {
		lo = tb.Int(0)
	}
	if in.High != nil {
		hi = fc.term(fc.val(in.High, st))
	}
	if in.Max != nil {
		mx = fc.term(fc.val(in.Max, st))
	}
	switch xt := types.Unalias(in.X.Type()).Underlying().(type) {
	case *types.Basic: // string
		s := fc.term(fc.val(in.X, st))
		ln := tb.App("s_len", "Int", s)
		if hi == nil {
			hi = ln
		}
		fc.boundsCheck(st, tb.And(tb.Le(tb.Int(0), lo), tb.Le(lo, hi), tb.Le(hi, ln)), "slice")
		return tb.App("s_sub", "Str", s, lo, hi)
	case *types.Slice:
		s := fc.term(fc.val(in.X, st))
		cp := tb.App("s_cap", "Int", s)
		if hi == nil {
			hi = tb.App("s_len", "Int", s)
		}
		if mx == nil {
			mx = cp
		}
		fc.boundsCheck(st, tb.And(tb.Le(tb.Int(0), lo), tb.Le(lo, hi), tb.Le(hi, mx), tb.Le(mx, cp)), "slice")
		return tb.App("mk_slice", "Slice", tb.App("s_arr", "Ref", s), tb.Add(tb.App("s_off", "Int", s), lo), tb.Sub(hi, lo), tb.Sub(mx, lo))
	case *types.Pointer: // *[N]T
		at := types.Unalias(xt.Elem()).Underlying().(*types.Array)
		base := fc.ptrAddr(fc.val(in.X, st), in.X.Type(), st)
		if base.Kind != aHeap || len(base.Path) != 0 || !strings.HasPrefix(base.Key, "E:") {
			fc.unsup("slicing an array that is not a heap object")
		}
		n := tb.Int(at.Len())
		if hi == nil {
			hi = n
		}
		if mx == nil {
			mx = n
		}
		fc.boundsCheck(st, tb.And(tb.Le(tb.Int(0), lo), tb.Le(lo, hi), tb.Le(hi, mx), tb.Le(mx, n)), "slice")
		return tb.App("mk_slice", "Slice", base.Ref, lo, tb.Sub(hi, lo), tb.Sub(mx, lo))
	}
	fc.unsup("Slice on %s", in.X.Type())
	return nil
}

func (fc *FnCtx) convert(in *ssa.Convert, st *State) Val {
	tb := fc.tb
	from, to := in.X.Type(), in.Type()
	x := fc.term(fc.val(in.X, st))
	fs, ts := fc.so.Sort(from), fc.so.Sort(to)
	switch {
	case fs == "Int" && ts == "Int":
		if isTimeTime(from) || isTimeTime(to) {
			return x
		}
		flo, fhi, _ := intRange(from)
		tlo, thi, ok := intRange(to)
		if !ok {
			return x
		}
		// widening conversions are identities
		if bigLE(tlo, flo) && bigLE(fhi, thi) {
			return x
		}
		return fc.arithResult(x, to, st, "conv")
	case fs == "Str" && ts == "Slice", fs == "Slice" && ts == "Str":
		return fc.strBytesConv(x, from, to, st)
	case fs == "Int" && ts == "Str":
		// string(rune)
		fn := tb.DeclFun("s_ofrune", []string{"Int"}, "Str")
		return tb.App(fn, "Str", x)
	case fs == "Int" && ts == "Real":
		return tb.App("to_real", "Real", x)
	case fs == "Real" && ts == "Int":
		r := tb.App("to_int", "Int", x)
		return r
	case fs == ts:
		return x
	}
	fc.unsup("conversion %s -> %s", from, to)
	return nil
}

func bigLE(a, b string) bool {
	// compare decimal strings with optional '-'
	na, nb := strings.HasPrefix(a, "-"), strings.HasPrefix(b, "-")
	if na != nb {
		return na
	}
	if na {
		a, b = b[1:], a[1:]
	}
	if len(a) != len(b) {
		return len(a) < len(b)
	}
	return a <= b
}

func (fc *FnCtx) strBytesConv(x *Term, from, to types.Type, st *State) Val {
	tb := fc.tb
	if fc.so.Sort(from) == "Str" {
		// []byte(s): fresh array with the same bytes
		if sl, ok := types.Unalias(to).Underlying().(*types.Slice); ok {
			if b, ok := sl.Elem().Underlying().(*types.Basic); !ok || b.Kind() != types.Uint8 {
				fc.unsup("[]rune conversion")
			}
		}
		r := fc.freshRef(st, "bytes")
		key := "E:Int"
		m := fc.heapGet(st, key, ArraySort("Ref", ArraySort("Int", "Int")))
		fn := tb.DeclFun("s_bytes", []string{"Str"}, ArraySort("Int", "Int"))
		arr := tb.App(fn, ArraySort("Int", "Int"), x)
		k := tb.BoundVar("k", "Int")
		tb.AddAxiom("s_bytes", tb.Quant(true, []*Term{tb.BoundVar("s", "Str"), k},
			tb.Eq(tb.Select(tb.App(fn, ArraySort("Int", "Int"), tb.BoundVar("s", "Str")), k), tb.App("s_at", "Int", tb.BoundVar("s", "Str"), k)),
			tb.Select(tb.App(fn, ArraySort("Int", "Int"), tb.BoundVar("s", "Str")), k)))
		fc.heapSet(st, key, tb.Store(m, r, arr))
		ln := tb.App("s_len", "Int", x)
		return tb.App("mk_slice", "Slice", r, tb.Int(0), ln, ln)
	}
	// string(b): fresh string with the same bytes
	if sl, ok := types.Unalias(from).Underlying().(*types.Slice); ok {
		if b, ok := sl.Elem().Underlying().(*types.Basic); !ok || b.Kind() != types.Uint8 {
			fc.unsup("string([]rune) conversion")
		}
	}
	m := fc.heapGet(st, "E:Int", ArraySort("Ref", ArraySort("Int", "Int")))
	fn := tb.DeclFun("s_ofbytes", []string{ArraySort("Int", "Int"), "Int", "Int"}, "Str")
	arr := tb.Select(m, tb.App("s_arr", "Ref", x))
	off := tb.App("s_off", "Int", x)
	ln := tb.App("s_len", "Int", x)
	s := tb.App(fn, "Str", arr, off, ln)
	a := tb.BoundVar("a", ArraySort("Int", "Int"))
	o := tb.BoundVar("o", "Int")
	n := tb.BoundVar("n", "Int")
	k := tb.BoundVar("k", "Int")
	sa := tb.App(fn, "Str", a, o, n)
	tb.AddAxiom("s_ofbytes-len", tb.Quant(true, []*Term{a, o, n}, tb.Implies(tb.Ge(n, tb.Int(0)), tb.Eq(tb.App("s_len", "Int", sa), n)), sa))
	tb.AddAxiom("s_ofbytes-at", tb.Quant(true, []*Term{a, o, n, k}, tb.Implies(tb.And(tb.Le(tb.Int(0), k), tb.Lt(k, n)),
		tb.Eq(tb.App("s_at", "Int", sa, k), tb.Select(a, tb.Add(o, k)))), tb.App("s_at", "Int", sa, k)))
	return s
}

func (fc *FnCtx) typeAssert(in *ssa.TypeAssert, st *State) Val {
	tb := fc.tb
	x := fc.term(fc.val(in.X, st))
	tag := tb.App("i_tag", "Int", x)
	if types.IsInterface(in.AssertedType) {
		// interface-to-interface assertion: succeeds iff dynamic type implements it; opaque
		okFn := tb.DeclFun("implements_"+mangle(typeName(in.AssertedType)), []string{"Int"}, "Bool")
		ok := tb.And(tb.Not(tb.Eq(x, tb.Const("inil", "Iface"))), tb.App(okFn, "Bool", tag))
		if in.CommaOk {
			return Tuple{tb.Ite(ok, x, tb.Const("inil", "Iface")), ok}
		}
		fc.boundsCheck(st, ok, "typeassert")
		return x
	}
	_, unbox := fc.so.BoxFns(in.AssertedType)
	srt := fc.so.Sort(in.AssertedType)
	ok := tb.Eq(tag, tb.Int(int64(fc.so.TagID(in.AssertedType))))
	v := tb.App(unbox, srt, x)
	// a value whose tag is T is the boxing of its unboxing
	box, _ := fc.so.BoxFns(in.AssertedType)
	fc.assume(st, tb.Implies(ok, tb.Eq(tb.App(box, "Iface", v), x)))
	if in.CommaOk {
		return Tuple{tb.Ite(ok, v, fc.so.Zero(in.AssertedType)), ok}
	}
	fc.boundsCheck(st, ok, "typeassert")
	return v
}

// noteEptrLeak: a pointer that may be an element pointer is stored into the heap: from now on every call
// may write the element storage of that sort through it.
func (fc *FnCtx) noteEptrLeak(t types.Type) {
	if len(fc.eptr) == 0 {
		return
	}
	if p, ok := types.Unalias(t).Underlying().(*types.Pointer); ok {
		es := fc.so.Sort(p.Elem())
		if _, ok := fc.eptr[es]; ok {
			if fc.eptrLeaked == nil {
				fc.eptrLeaked = map[string]bool{}
			}
			fc.eptrLeaked[es] = true
		}
	}
}
