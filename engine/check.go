package govc

import (
	"crypto/sha256"
	"encoding/json"
	"fmt"
	"go/types"
	"os"
	"path/filepath"
	"sort"
	"strings"
	"sync"
	"time"

	"golang.org/x/tools/go/ssa"
)

type PropConfig struct {
	ID             string            `json:"id"`
	Packages       []string          `json:"packages"`
	Explain        string            `json:"explanation"`
	NotDecided     []string          `json:"not_decided"`
	Assumes        []string          `json:"assumptions"`
	FieldGuardPkgs []string          `json:"fieldguard_packages"`
	Env            map[string]string `json:"env"`
	Bounded        []BoundedSpec     `json:"bounded"`
}

type CheckConfig struct {
	Property    string
	Tier        string
	Seed        int64
	Repo        string
	Verif       string
	Only        string // substring filter on obligation names (debug)
	KeepSMT     bool
	Verbose     bool
	NoBaseline  bool
	Overlay     map[string][]byte // file path -> replacement content (selftest mutants only)
	EvidenceDir string            // where to write evidence (default <verif>/evidence)
	Quiet       bool
}

type OblResult struct {
	Name      string  `json:"name"`
	Kind      string  `json:"kind"`
	Fn        string  `json:"function"`
	Where     string  `json:"where"`
	Text      string  `json:"text"`
	Status    string  `json:"status"`
	Solver    string  `json:"solver"`
	Seconds   float64 `json:"seconds"`
	Hash      string  `json:"vc_hash"`
	Bytes     int     `json:"smt_bytes"`
	NHyps     int     `json:"hypotheses"`
	script    string
	retried   *SolveResult
	obl       *Obligation
	res       SolveResult
	presolved bool
}

type FnReport struct {
	Name        string
	Obligations int
	Unsupported []string
	Notes       []string
}

type Baseline struct {
	Obligations map[string]map[string]string `json:"obligations"` // property -> name -> hash
}

type KnownFinding struct {
	Property   string   `json:"property"`
	Obligation string   `json:"obligation"`
	What       string   `json:"what"`
	Status     string   `json:"status"` // open | fixed
	Commit     string   `json:"commit,omitempty"`
	Demo       string   `json:"demo,omitempty"`
	AlsoIn     []string `json:"also_in,omitempty"` // other properties whose check contains the same obligation
}

func loadJSON(path string, v interface{}) error {
	b, err := os.ReadFile(path)
	if err != nil {
		return err
	}
	return json.Unmarshal(b, v)
}

func scratchDir(cfg *CheckConfig) string {
	d := filepath.Join(cfg.outBase(), "work", cfg.Property)
	os.MkdirAll(d, 0o755)
	return d
}

// RunCheck runs all obligations of one property. Returns the process exit code.
func RunCheck(cfg *CheckConfig) int {
	knownHits = nil
	start := time.Now()
	var pc PropConfig
	if err := loadJSON(filepath.Join(cfg.Verif, "props", cfg.Property+".json"), &pc); err != nil {
		fmt.Printf("ERROR cannot read property config: %v\n", err)
		return 2
	}
	ExtraLoadEnv = nil
	for k, v := range pc.Env {
		ExtraLoadEnv = append(ExtraLoadEnv, k+"="+v)
	}
	sort.Strings(ExtraLoadEnv)
	eng, err := Load(cfg.Repo, pc.Packages, filepath.Join(cfg.Verif, "engine", "lib"), cfg.Overlay)
	if err != nil {
		fmt.Printf("ERROR loading packages: %v\n", err)
		return 2
	}
	loadS := time.Since(start).Seconds()
	timeout := 20
	if cfg.Tier == "thorough" {
		timeout = 120
	}
	var results []*OblResult
	var fnReports []*FnReport
	var undecided []string
	notes := map[string]bool{}
	fnCount := 0
	var covers []*OblResult
	// select contracts
	for _, con := range eng.cs.Order {
		if !con.HasProp(cfg.Property) {
			continue
		}
		if con.Trusted && len(con.Requires) == 0 {
			continue
		}
		fn := eng.FindFunc(con)
		if fn == nil {
			undecided = append(undecided, fmt.Sprintf("UNDECIDED property=%s obligation=%s reason=contract-stale (function %s not found in %s)", cfg.Property, con.Key, con.Key, con.Pkg))
			continue
		}
		if con.Trusted {
			continue
		}
		fc := eng.NewFnCtx(fn, con)
		fc.fieldGuardsOn = true
		fc.Run()
		fnCount++
		// a guard that matches no effect site of the function, or that cannot be elaborated at a site, is a
		// stale contract, not a pass: reported as UNDECIDED; the function's other obligations are still checked
		if len(fc.unsupported) == 0 {
			for _, g := range con.Guards {
				if fc.guardCount[g.Kind+" "+g.Target+" "+g.Cond.Text] == 0 && fc.guardCount[g.Kind+" "+g.Target] == 0 {
					undecided = append(undecided, fmt.Sprintf("UNDECIDED property=%s obligation=%s#guard#%s:%s reason=contract-stale (guard matches no site in the function)", cfg.Property, fc.fnName(), g.Kind, g.Target))
				}
			}
			var sg []string
			for txt := range fc.staleGuards {
				sg = append(sg, txt)
			}
			sort.Strings(sg)
			for _, txt := range sg {
				undecided = append(undecided, fmt.Sprintf("UNDECIDED property=%s obligation=%s#guard reason=contract-stale (%s: %s)", cfg.Property, fc.fnName(), fc.staleGuards[txt], txt))
			}
		}
		rep := &FnReport{Name: fc.fnName(), Obligations: len(fc.obls), Unsupported: fc.unsupported}
		for n := range fc.notes {
			notes[n] = true
		}
		fnReports = append(fnReports, rep)
		if len(fc.unsupported) > 0 {
			reason := "unsupported"
			if strings.HasPrefix(fc.unsupported[0], "contract-stale") {
				reason = "contract-stale"
			}
			undecided = append(undecided, fmt.Sprintf("UNDECIDED property=%s obligation=%s reason=%s (%s)", cfg.Property, fc.fnName(), reason, fc.unsupported[0]))
			continue
		}
		for _, o := range fc.obls {
			if cfg.Only != "" && !strings.Contains(o.Name, cfg.Only) {
				continue
			}
			results = append(results, fc.mkResult(o))
		}
		// vacuity: the normal exit must be reachable under all assumptions
		if fc.exit != nil {
			hyps := append([]*Term{}, fc.hyps...)
			hyps = append(hyps, fc.exit.reach)
			script := fc.tb.Script(hyps, nil, nil, ScriptOpts{})
			covers = append(covers, &OblResult{Name: fc.fnName() + "#cover#exit", Kind: "cover", Fn: fc.fnName(), script: script})
		}
	}
	// field guards for this property: every function of the package that stores the field
	for _, fg := range eng.cs.FieldGuards {
		has := false
		for _, p := range fg.Props {
			if p == cfg.Property {
				has = true
			}
		}
		if !has {
			continue
		}
		for _, fn := range eng.functionsStoring(fg) {
			if con := eng.contractFor(fn); con != nil && con.HasProp(cfg.Property) {
				continue // already run above with field guards on
			}
			fc := eng.NewFnCtx(fn, eng.contractFor(fn))
			fc.fieldGuardsOn = true
			fc.Run()
			fnCount++
			if len(fc.unsupported) > 0 {
				undecided = append(undecided, fmt.Sprintf("UNDECIDED property=%s obligation=%s#fieldguard#%s reason=unsupported (%s)", cfg.Property, fc.fnName(), fg.Field, fc.unsupported[0]))
				continue
			}
			for n := range fc.notes {
				notes[n] = true
			}
			for _, o := range fc.obls {
				if o.Kind == "fieldguard" {
					results = append(results, fc.mkResult(o))
				}
			}
		}
	}
	// package-constant obligations (syntactic, on the real source)
	for _, cc := range eng.cs.Consts {
		has := false
		for _, p := range cc.Props {
			if p == cfg.Property {
				has = true
			}
		}
		if !has {
			continue
		}
		var name, detail string
		var ok bool
		if cc.Kind == "callers" {
			name, ok, detail = eng.CallersCheck(cc)
		} else {
			name, ok, detail = eng.ConstInitCheck(cc)
		}
		r := &OblResult{Name: name, Kind: "const", Fn: name, Where: cc.Clause.Where, Text: cc.Clause.Text, presolved: true, Solver: "syntactic"}
		h := sha256.Sum256([]byte(cc.Clause.Text + "|" + detail))
		r.Hash = fmt.Sprintf("%x", h[:8])
		if ok {
			r.Status = "unsat"
		} else {
			r.Status = "unknown"
			r.Text += " — " + detail
			r.res.Output = detail
		}
		results = append(results, r)
	}
	// solve
	work := scratchDir(cfg)
	var wg sync.WaitGroup
	sem := make(chan struct{}, 8)
	solveOne := func(r *OblResult, to int, model bool) {
		defer wg.Done()
		sem <- struct{}{}
		defer func() { <-sem }()
		r.res = Solve(r.script, work, r.Name, to, model)
		r.Status = r.res.Status
		r.Solver = r.res.Solver
		r.Seconds = r.res.Seconds
	}
	for _, r := range results {
		if r.presolved {
			continue
		}
		wg.Add(1)
		go solveOne(r, timeout, false)
	}
	for _, r := range covers {
		wg.Add(1)
		go solveOne(r, 5, false)
	}
	wg.Wait()
	// baseline
	var base Baseline
	loadJSON(filepath.Join(cfg.Verif, "baseline", "obligations.json"), &base)
	baseP := base.Obligations[cfg.Property]
	var known []KnownFinding
	loadJSON(filepath.Join(cfg.Verif, "known_findings.json"), &known)
	knownOpen := map[string]KnownFinding{}
	for _, k := range known {
		applies := k.Property == cfg.Property
		for _, p := range k.AlsoIn {
			if p == cfg.Property {
				applies = true
			}
		}
		if applies && k.Status == "open" {
			knownOpen[k.Obligation] = k
		}
	}
	// obligations that did not get an answer and deserve one retry with a longer limit (an unchanged VC, or
	// a changed VC that merely timed out): retried in parallel, the verdicts below use the retry's answer
	{
		var rwg sync.WaitGroup
		rsem := make(chan struct{}, 8)
		for _, r := range results {
			if r.presolved || r.Status == "unsat" || r.Status == "sat" {
				continue
			}
			if _, ok := knownOpen[r.Name]; ok {
				continue
			}
			bh, inBase := baseP[r.Name]
			unchanged := inBase && bh == r.Hash
			if !(unchanged || (r.Status == "timeout" && cfg.Tier != "thorough")) {
				continue
			}
			rwg.Add(1)
			go func(r *OblResult) {
				defer rwg.Done()
				rsem <- struct{}{}
				defer func() { <-rsem }()
				rr := Solve(r.script, work, r.Name, timeout*3, false)
				r.retried = &rr
			}(r)
		}
		rwg.Wait()
	}
	violations := 0
	discharged := 0
	solverCount := map[string]int{}
	solverSecs := 0.0
	seen := map[string]bool{}
	sort.Slice(results, func(i, j int) bool { return results[i].Name < results[j].Name })
	for _, r := range results {
		seen[r.Name] = true
		solverSecs += r.Seconds
		switch r.Status {
		case "unsat":
			discharged++
			solverCount[r.Solver]++
			if kf, ok := knownOpen[r.Name]; ok {
				_ = kf // finding no longer reproduces: print nothing
			}
		case "sat":
			if kf, ok := knownOpen[r.Name]; ok {
				fmt.Printf("KNOWN-FINDING: property=%s %s (obligation %s)\n", cfg.Property, kf.What, r.Name)
				knownHits = append(knownHits, r.Name)
				continue
			}
			violations++
			path := writeReplay(cfg, eng, r, true)
			fmt.Printf("VIOLATION property=%s replay=%s%s\n", cfg.Property, path, noInputSuffix(path))
			fmt.Printf("  obligation %s at %s: %s\n", r.Name, r.Where, r.Text)
		default:
			if kf, ok := knownOpen[r.Name]; ok {
				fmt.Printf("KNOWN-FINDING: property=%s %s (obligation %s, solver: %s)\n", cfg.Property, kf.What, r.Name, r.Status)
				knownHits = append(knownHits, r.Name)
				continue
			}
			bh, inBase := baseP[r.Name]
			if inBase && bh == r.Hash {
				// unchanged VC, solver did not answer: retry with a longer timeout
				rr := SolveResult{Status: r.Status}
				if r.retried != nil {
					rr = *r.retried
				}
				if rr.Status == "unsat" {
					r.Status, r.Solver, r.Seconds = "unsat", rr.Solver, rr.Seconds
					discharged++
					solverCount[r.Solver]++
					continue
				}
				undecided = append(undecided, fmt.Sprintf("UNDECIDED property=%s obligation=%s reason=solver-%s-on-unchanged-vc", cfg.Property, r.Name, r.Status))
				continue
			}
			if (inBase || cfg.NoBaseline || len(baseP) > 0) && r.Status == "timeout" && cfg.Tier != "thorough" {
				// a changed VC that merely ran out of time: one retry with a longer limit before calling it
				// a failed proof (a harmless edit of a function whose proof is slow must not become an alarm)
				rr := SolveResult{Status: r.Status}
				if r.retried != nil {
					rr = *r.retried
				}
				if rr.Status == "unsat" {
					r.Status, r.Solver, r.Seconds = "unsat", rr.Solver, rr.Seconds
					discharged++
					solverCount[r.Solver]++
					continue
				}
			}
			if inBase || cfg.NoBaseline || len(baseP) > 0 {
				// the obligation's VC is not the one discharged on the unchanged tree (changed or new):
				// the proof no longer goes through
				violations++
				path := writeReplay(cfg, eng, r, false)
				fmt.Printf("VIOLATION property=%s replay=%s%s\n", cfg.Property, path, noInputSuffix(path))
				fmt.Printf("  obligation %s at %s: %s (solver answer: %s)\n", r.Name, r.Where, r.Text, r.Status)
				continue
			}
			undecided = append(undecided, fmt.Sprintf("UNDECIDED property=%s obligation=%s reason=solver-%s (not in baseline)", cfg.Property, r.Name, r.Status))
		}
	}
	// obligations in the baseline that no longer exist
	var missing []string
	for name := range baseP {
		if !seen[name] && (cfg.Only == "" || strings.Contains(name, cfg.Only)) {
			missing = append(missing, name)
		}
	}
	sort.Strings(missing)
	for _, m := range missing {
		explained := false
		fnPart := m
		if i := strings.Index(m, "#"); i >= 0 {
			fnPart = m[:i]
		}
		for _, u := range undecided {
			if strings.Contains(u, "obligation="+fnPart) {
				explained = true
			}
		}
		if !explained {
			undecided = append(undecided, fmt.Sprintf("UNDECIDED property=%s obligation=%s reason=obligation-disappeared (effect site or clause no longer present)", cfg.Property, m))
		}
	}
	vacuous := 0
	for _, c := range covers {
		if c.Status == "unsat" {
			vacuous++
			violations++
			fmt.Printf("VIOLATION property=%s replay=%s no-failing-input-found\n", cfg.Property, writeReplay(cfg, eng, c, false))
			fmt.Printf("  vacuity: assumptions of %s are contradictory (no execution reaches a normal return)\n", c.Fn)
		}
	}
	sort.Strings(undecided)
	for _, u := range undecided {
		fmt.Println(u)
	}
	if cfg.Only == "" {
		violations += runBounded(cfg, &pc, knownOpen)
	}
	if len(results) == 0 {
		fmt.Printf("ERROR property=%s generated no obligations\n", cfg.Property)
		if violations == 0 {
			writeEvidence(cfg, &pc, eng, results, fnReports, notes, undecided, discharged, violations, solverCount, solverSecs, loadS, time.Since(start).Seconds(), fnCount, covers)
			return 2
		}
	}
	writeEvidence(cfg, &pc, eng, results, fnReports, notes, undecided, discharged, violations, solverCount, solverSecs, loadS, time.Since(start).Seconds(), fnCount, covers)
	fmt.Printf("property=%s functions=%d obligations=%d discharged=%d undecided=%d violations=%d load=%.1fs solve=%.1fs wall=%.1fs\n",
		cfg.Property, fnCount, len(results), discharged, len(undecided), violations, loadS, solverSecs, time.Since(start).Seconds())
	if !cfg.KeepSMT {
		os.RemoveAll(work)
	}
	if violations > 0 {
		return 1
	}
	return 0
}

func (fc *FnCtx) mkResult(o *Obligation) *OblResult {
	hyps := append([]*Term{}, fc.hyps[:o.NHyps]...)
	hyps = append(hyps, o.Reach)
	hyps = append(hyps, o.Extra...)
	script := fc.tb.Script(hyps, o.Goal, nil, ScriptOpts{})
	h := sha256.Sum256([]byte(script))
	return &OblResult{Name: o.Name, Kind: o.Kind, Fn: o.Fn, Where: o.Where, Text: o.Text, Hash: fmt.Sprintf("%x", h[:8]), Bytes: len(script), NHyps: o.NHyps, script: script, obl: o}
}

func (e *Engine) NewFnCtx(fn *ssa.Function, con *Contract) *FnCtx {
	fc := &FnCtx{eng: e, fn: fn, con: con, keySort: map[string]string{}, arith: "math"}
	if con != nil && con.Arith != "" {
		fc.arith = con.Arith
	}
	return fc
}

// functionsStoring lists functions of the field guard's package with a store to the field.
func (e *Engine) functionsStoring(fg *FieldGuard) []*ssa.Function {
	var out []*ssa.Function
	for _, p := range e.prog.AllPackages() {
		if p.Pkg.Path() != fg.Pkg {
			continue
		}
		seen := map[*ssa.Function]bool{}
		var visit func(fn *ssa.Function)
		visit = func(fn *ssa.Function) {
			if fn == nil || seen[fn] {
				return
			}
			seen[fn] = true
			if fn.Synthetic == "" {
			scan:
				for _, b := range fn.Blocks {
					for _, in := range b.Instrs {
						s, ok := in.(*ssa.Store)
						if !ok {
							continue
						}
						fa, ok := s.Addr.(*ssa.FieldAddr)
						if !ok {
							continue
						}
						pt := types.Unalias(fa.X.Type()).Underlying().(*types.Pointer).Elem()
						st := pt.Underlying().(*types.Struct)
						n := typeName(pt)
						if i := lastDot(n); i >= 0 {
							n = n[i+1:]
						}
						if n+"."+st.Field(fa.Field).Name() == fg.Field {
							out = append(out, fn)
							break scan
						}
					}
				}
			}
			for _, a := range fn.AnonFuncs {
				visit(a)
			}
		}
		for _, m := range p.Members {
			switch m := m.(type) {
			case *ssa.Function:
				visit(m)
			case *ssa.Type:
				for _, t := range []types.Type{m.Type(), types.NewPointer(m.Type())} {
					ms := e.prog.MethodSets.MethodSet(t)
					for i := 0; i < ms.Len(); i++ {
						visit(e.prog.MethodValue(ms.At(i)))
					}
				}
			}
		}
	}
	sort.Slice(out, func(i, j int) bool { return out[i].String() < out[j].String() })
	return out
}

func writeReplay(cfg *CheckConfig, eng *Engine, r *OblResult, haveModel bool) string {
	dir := filepath.Join(cfg.outBase(), "replays", cfg.Property)
	os.MkdirAll(dir, 0o755)
	name := mangle(r.Name)
	if len(name) > 150 {
		name = fmt.Sprintf("%s_%x", name[:100], hashString(r.Name))
	}
	path := filepath.Join(dir, name+".json")
	out := map[string]interface{}{
		"property": cfg.Property, "obligation": r.Name, "kind": r.Kind, "function": r.Fn, "where": r.Where, "clause": r.Text,
		"solver": r.res.Solver, "solver_status": r.res.Status, "solver_output": truncate(r.res.Output, 20000),
	}
	if r.obl != nil {
		var rep map[string]interface{}
		if haveModel {
			rep = r.obl.fc.buildReplay(cfg, r)
		}
		if st, _ := rep["replay_status"].(string); !strings.HasPrefix(st, "reproduced") {
			if sr := r.obl.fc.searchReplay(cfg, r); sr != nil {
				if s2, _ := sr["replay_status"].(string); strings.HasPrefix(s2, "search: reproduced") || rep == nil {
					rep = sr
				}
			}
		}
		for k, v := range rep {
			out[k] = v
		}
	}
	b, _ := json.MarshalIndent(out, "", " ")
	os.WriteFile(path, b, 0o644)
	os.WriteFile(filepath.Join(dir, name+".smt2"), []byte(r.script), 0o644)
	return path
}

// noInputSuffix: the VIOLATION line ends with no-failing-input-found unless the replay file
// records a concrete input that reproduced the failure on the real code.
func noInputSuffix(path string) string {
	var rep map[string]interface{}
	if loadJSON(path, &rep) == nil {
		if st, _ := rep["replay_status"].(string); strings.HasPrefix(st, "reproduced") || strings.HasPrefix(st, "search: reproduced") {
			return ""
		}
	}
	return " no-failing-input-found"
}

func truncate(s string, n int) string {
	if len(s) > n {
		return s[:n] + "…"
	}
	return s
}

// obligations that failed in this run and are listed as open known findings (not counted as proved,
// reported separately in the evidence)
var knownHits []string

func writeEvidence(cfg *CheckConfig, pc *PropConfig, eng *Engine, results []*OblResult, fns []*FnReport, notes map[string]bool, undecided []string,
	discharged, violations int, solverCount map[string]int, solverSecs, loadS, wall float64, fnCount int, covers []*OblResult) {
	var samples []interface{}
	for i, r := range results {
		if i%((len(results)/3)+1) == 0 && len(samples) < 4 {
			samples = append(samples, map[string]interface{}{"obligation": r.Name, "kind": r.Kind, "clause": r.Text, "where": r.Where,
				"hypotheses": r.NHyps, "smt_bytes": r.Bytes, "status": r.Status, "solver": r.Solver, "seconds": r.Seconds})
		}
	}
	var fnNames []string
	for _, f := range fns {
		s := fmt.Sprintf("%s (%d obligations)", f.Name, f.Obligations)
		if len(f.Unsupported) > 0 {
			s += " UNSUPPORTED: " + f.Unsupported[0]
		}
		fnNames = append(fnNames, s)
	}
	var ass []string
	for n := range notes {
		ass = append(ass, n)
	}
	sort.Strings(ass)
	ass = append(ass, pc.Assumes...)
	var all []map[string]interface{}
	for _, r := range results {
		all = append(all, map[string]interface{}{"name": r.Name, "status": r.Status, "solver": r.Solver, "seconds": round3(r.Seconds), "vc_hash": r.Hash})
	}
	coverOK := 0
	for _, c := range covers {
		if c.Status == "sat" {
			coverOK++
		}
	}
	trusted := []string{
		"T1 go/ssa (x/tools v0.29.0) builds SSA that means what the compiler compiles; extraction is redone on every run from /repo's working tree with -tags verif",
		"T2 govc's SMT encoding of SSA (exercised by the must-fail selftest corpus, not proved)",
		"T3 unsat answers of z3 4.8.12 / z3 5.1.0 / cvc5 1.0",
		"T4 library models and trusted contracts listed under assumptions",
		"calls into functions without contract are abstracted by their computed write-effect set; their results are unconstrained",
		"goroutine interleavings are not modelled: each function is verified as a sequential critical section",
	}
	ev := map[string]interface{}{
		"property_id": cfg.Property, "tier": cfg.Tier, "seed": cfg.Seed, "level": "proof",
		"coverage": map[string]interface{}{
			// obligations the proof claim is about: all generated ones except those that fail and are
			// recorded as open known findings (listed under known_finding_obligations, never counted as proved)
			"obligations": len(results) - knownAmong(results), "discharged": discharged,
			"generated_obligations": len(results), "known_finding_obligations": append([]string{}, knownHits...),
			"checker_cmd":              fmt.Sprintf("bin/govc check --property %s --tier %s", cfg.Property, cfg.Tier),
			"trusted_base":             trusted,
			"functions_under_contract": fnNames, "functions": fnCount,
			"by_backend": solverCount, "solver_seconds": round3(solverSecs), "load_seconds": round3(loadS),
			"undecided": undecided, "samples": samples, "all_obligations": all,
			"vacuity_covers": map[string]interface{}{"functions": len(covers), "exit_reachable_sat": coverOK},
			"explanation":    pc.Explain, "not_decided": pc.NotDecided,
			"bounded": append([]string{}, boundedReports...),
		},
		"assumptions": ass, "wall_s": round3(wall), "violations": violations,
	}
	os.MkdirAll(cfg.evDir(), 0o755)
	b, _ := json.MarshalIndent(ev, "", " ")
	os.WriteFile(filepath.Join(cfg.evDir(), cfg.Property+".json"), b, 0o644)
}

func round3(f float64) float64 { return float64(int(f*1000)) / 1000 }

// UpdateBaseline records the discharged obligations of a property.
func UpdateBaseline(cfg *CheckConfig) error {
	evp := filepath.Join(cfg.Verif, "evidence", cfg.Property+".json")
	var ev struct {
		Coverage struct {
			All []struct {
				Name   string `json:"name"`
				Status string `json:"status"`
				Hash   string `json:"vc_hash"`
			} `json:"all_obligations"`
		} `json:"coverage"`
	}
	if err := loadJSON(evp, &ev); err != nil {
		return err
	}
	var base Baseline
	bp := filepath.Join(cfg.Verif, "baseline", "obligations.json")
	loadJSON(bp, &base)
	if base.Obligations == nil {
		base.Obligations = map[string]map[string]string{}
	}
	m := map[string]string{}
	for _, o := range ev.Coverage.All {
		if o.Status == "unsat" {
			m[o.Name] = o.Hash
		}
	}
	base.Obligations[cfg.Property] = m
	os.MkdirAll(filepath.Dir(bp), 0o755)
	b, _ := json.MarshalIndent(base, "", " ")
	return os.WriteFile(bp, b, 0o644)
}

func (cfg *CheckConfig) evDir() string {
	if cfg.EvidenceDir != "" {
		return cfg.EvidenceDir
	}
	return filepath.Join(cfg.Verif, "evidence")
}

func (cfg *CheckConfig) outBase() string {
	if cfg.EvidenceDir != "" {
		return cfg.EvidenceDir
	}
	return cfg.Verif
}

// knownAmong: how many generated obligations failed and are recorded as open known findings
func knownAmong(results []*OblResult) int {
	n := 0
	for _, r := range results {
		for _, k := range knownHits {
			if k == r.Name {
				n++
			}
		}
	}
	return n
}
