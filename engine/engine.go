package govc

import (
	"fmt"
	"go/ast"
	"go/constant"
	"go/token"
	"go/types"
	"os"
	"path/filepath"
	"sort"
	"strings"

	"golang.org/x/tools/go/packages"
	"golang.org/x/tools/go/ssa"
	"golang.org/x/tools/go/ssa/ssautil"
)

const snapdMod = "github.com/snapcore/snapd"

type Engine struct {
	skipOwnContract *ssa.Function // frameConfirmed: analyse this function's body instead of its assigns clause
	repo            string
	fset            *token.FileSet
	prog            *ssa.Program
	pkgs            []*packages.Package
	byPath          map[string]*packages.Package
	cs              *ContractSet
	effCache        map[*ssa.Function]*effSet
	effBusy         map[*ssa.Function]bool
	autoPureCache   map[*ssa.Function]int // 0 unknown 1 yes 2 no
	readsCache      map[*ssa.Function]map[string]string
	constGlobals    map[string]*constGlobal // key "G:..." -> literal value info
	globalStores    map[*ssa.Global]bool
	globalsScanned  map[*ssa.Package]bool
	immGlobals      map[string]bool
	allScanned      bool
	effSo           *Sorts
	LoadSeconds     float64
}

type constGlobal struct {
	g    *ssa.Global
	spec *ast.ValueSpec
	idx  int
	info *types.Info
}

// Load loads the given package patterns (relative to the repo) with -tags verif.
// ExtraLoadEnv: per-property environment for loading the packages (props/<id>.json "env"), e.g.
// CGO_ENABLED=0 for a package whose cgo part needs headers that are not installed.
var ExtraLoadEnv []string

func Load(repo string, patterns []string, libDir string, overlay map[string][]byte) (*Engine, error) {
	cfg := &packages.Config{Mode: packages.LoadAllSyntax, Dir: repo, BuildFlags: []string{"-tags=verif"}, Overlay: overlay,
		Env: append(append(os.Environ(), "GOFLAGS=-mod=mod", "GOPROXY=off", "GOSUMDB=off", "GOTOOLCHAIN=local"), ExtraLoadEnv...)}
	pkgs, err := packages.Load(cfg, patterns...)
	if err != nil {
		return nil, err
	}
	var errs []string
	packages.Visit(pkgs, nil, func(p *packages.Package) {
		for _, e := range p.Errors {
			if strings.HasPrefix(p.PkgPath, snapdMod) {
				errs = append(errs, e.Error())
			}
		}
	})
	if len(errs) > 0 {
		return nil, fmt.Errorf("load errors: %s", strings.Join(errs, "; "))
	}
	prog, _ := ssautil.AllPackages(pkgs, ssa.NaiveForm|ssa.GlobalDebug|ssa.InstantiateGenerics)
	prog.Build()
	e := &Engine{repo: repo, prog: prog, pkgs: pkgs, byPath: map[string]*packages.Package{}, cs: NewContractSet(),
		effCache: map[*ssa.Function]*effSet{}, effBusy: map[*ssa.Function]bool{}, autoPureCache: map[*ssa.Function]int{},
		readsCache: map[*ssa.Function]map[string]string{}, constGlobals: map[string]*constGlobal{}, globalStores: map[*ssa.Global]bool{},
		globalsScanned: map[*ssa.Package]bool{}, immGlobals: map[string]bool{}}
	e.effSo = NewSorts(NewTB())
	packages.Visit(pkgs, nil, func(p *packages.Package) {
		e.byPath[p.PkgPath] = p
		if e.fset == nil {
			e.fset = p.Fset
		}
	})
	// library contracts
	if libDir != "" {
		files, _ := filepath.Glob(filepath.Join(libDir, "*.contracts"))
		sort.Strings(files)
		for _, f := range files {
			if err := e.cs.ParseContractFile(f, ""); err != nil {
				return nil, err
			}
		}
	}
	// package contracts: any file named contracts_verif.go (or *_contracts_verif.go) in loaded snapd packages
	var perr error
	packages.Visit(pkgs, nil, func(p *packages.Package) {
		if !strings.HasPrefix(p.PkgPath, snapdMod) {
			return
		}
		for _, f := range p.CompiledGoFiles {
			if strings.HasSuffix(f, "contracts_verif.go") {
				if err := e.cs.ParseContractFile(f, p.PkgPath); err != nil && perr == nil {
					perr = err
				}
			}
		}
	})
	if perr != nil {
		return nil, perr
	}
	return e, nil
}

func (e *Engine) shortFn(fn *ssa.Function) string {
	if fn.Pkg == nil {
		return fn.String()
	}
	s := fn.RelString(fn.Pkg.Pkg)
	p := strings.TrimPrefix(fn.Pkg.Pkg.Path(), snapdMod+"/")
	return p + "." + s
}

// funcKey: key of a function inside its package's contract file.
func funcKey(fn *ssa.Function) string {
	if fn.Pkg == nil {
		return fn.String()
	}
	if fn.Origin() != nil {
		fn = fn.Origin()
	}
	return fn.RelString(fn.Pkg.Pkg)
}

func (e *Engine) localKey(pkg *types.Package, key string) string {
	if pkg == nil {
		return key
	}
	return pkg.Path() + "::" + key
}

func (e *Engine) contractFor(fn *ssa.Function) *Contract {
	if fn == nil {
		return nil
	}
	f := fn
	if f.Origin() != nil {
		f = f.Origin()
	}
	if f.Pkg != nil {
		if c := e.cs.ByKey[f.Pkg.Pkg.Path()+"::"+funcKey(f)]; c != nil {
			return c
		}
	}
	// library style: fully qualified
	if c := e.cs.ByKey[f.String()]; c != nil {
		return c
	}
	return nil
}

func (e *Engine) isSelf(fc *FnCtx, fn *ssa.Function) bool {
	return fc.fn == fn && !fc.pureMode
}

// FindFunc resolves a contract to its ssa.Function.
func (e *Engine) FindFunc(con *Contract) *ssa.Function {
	if con.Pkg == "" {
		return nil
	}
	for _, p := range e.prog.AllPackages() {
		if p.Pkg.Path() != con.Pkg {
			continue
		}
		var found *ssa.Function
		var visit func(fn *ssa.Function)
		seen := map[*ssa.Function]bool{}
		visit = func(fn *ssa.Function) {
			if fn == nil || seen[fn] {
				return
			}
			seen[fn] = true
			if funcKey(fn) == con.Key {
				found = fn
			}
			for _, a := range fn.AnonFuncs {
				visit(a)
			}
		}
		for _, m := range p.Members {
			switch m := m.(type) {
			case *ssa.Function:
				visit(m)
			case *ssa.Type:
				for _, t := range []types.Type{m.Type(), types.NewPointer(m.Type())} {
					ms := e.prog.MethodSets.MethodSet(t)
					for i := 0; i < ms.Len(); i++ {
						visit(e.prog.MethodValue(ms.At(i)))
					}
				}
			}
		}
		return found
	}
	return nil
}

// ---------- globals

func (e *Engine) scanGlobals(p *ssa.Package) {
	if e.globalsScanned[p] {
		return
	}
	e.globalsScanned[p] = true
	var visit func(fn *ssa.Function)
	seen := map[*ssa.Function]bool{}
	visit = func(fn *ssa.Function) {
		if fn == nil || seen[fn] {
			return
		}
		seen[fn] = true
		isInit := fn.Name() == "init" && fn.Parent() == nil
		for _, b := range fn.Blocks {
			for _, in := range b.Instrs {
				for _, op := range in.Operands(nil) {
					g, ok := (*op).(*ssa.Global)
					if !ok {
						continue
					}
					switch x := in.(type) {
					case *ssa.UnOp:
						continue // load
					case *ssa.Store:
						if x.Addr == g && isInit {
							continue
						}
					case *ssa.IndexAddr, *ssa.FieldAddr:
						// ok if only loaded through; check referrers
						if v, isV := in.(ssa.Value); isV && onlyLoaded(v) {
							continue
						}
						if isInit {
							continue
						}
					case *ssa.DebugRef:
						continue
					}
					e.globalStores[g] = true
				}
			}
		}
		for _, a := range fn.AnonFuncs {
			visit(a)
		}
	}
	for _, m := range p.Members {
		switch m := m.(type) {
		case *ssa.Function:
			visit(m)
		case *ssa.Type:
			for _, t := range []types.Type{m.Type(), types.NewPointer(m.Type())} {
				ms := e.prog.MethodSets.MethodSet(t)
				for i := 0; i < ms.Len(); i++ {
					visit(e.prog.MethodValue(ms.At(i)))
				}
			}
		}
	}
}

func onlyLoaded(v ssa.Value) bool {
	refs := v.Referrers()
	if refs == nil {
		return false
	}
	for _, r := range *refs {
		switch x := r.(type) {
		case *ssa.UnOp, *ssa.DebugRef:
		case *ssa.IndexAddr, *ssa.FieldAddr:
			if !onlyLoaded(x.(ssa.Value)) {
				return false
			}
		default:
			return false
		}
	}
	return true
}

// noteGlobal: if the global is effectively constant with literal initialiser, assert its value.
func (e *Engine) noteGlobal(fc *FnCtx, g *ssa.Global) {
	if g.Pkg == nil {
		return
	}
	key := "G:" + g.String()
	if _, done := fc.globalsNoted[key]; done {
		return
	}
	fc.globalsNoted[key] = true
	e.scanAllGlobals()
	if e.globalStores[g] {
		return
	}
	// never stored outside init in the loaded non-test code: the variable keeps its initial value
	e.immGlobals[key] = true
	fc.immutableGlobalFacts(key, g)
	pkg := e.byPath[g.Pkg.Pkg.Path()]
	if pkg == nil {
		return
	}
	// find the ValueSpec
	for _, f := range pkg.Syntax {
		for _, d := range f.Decls {
			gd, ok := d.(*ast.GenDecl)
			if !ok || gd.Tok != token.VAR {
				continue
			}
			for _, s := range gd.Specs {
				vs := s.(*ast.ValueSpec)
				for i, n := range vs.Names {
					if n.Name == g.Name() && pkg.TypesInfo.Defs[n] == g.Object() && i < len(vs.Values) {
						e.constGlobals[key] = &constGlobal{g: g, spec: vs, idx: i, info: pkg.TypesInfo}
						fc.assertGlobalValue(key, g, vs.Values[i], pkg.TypesInfo)
						return
					}
				}
			}
		}
	}
}

func (e *Engine) constGlobalKey(k string) bool {
	if e.immGlobals[k] {
		return true
	}
	_, ok := e.constGlobals[k]
	return ok
}

// assertGlobalValue adds axioms fixing the value of a constant global with a literal initialiser.
func (fc *FnCtx) assertGlobalValue(key string, g *ssa.Global, init ast.Expr, info *types.Info) {
	tb := fc.tb
	t := g.Type().(*types.Pointer).Elem()
	srt := fc.so.Sort(t)
	fc.regKey(key, srt)
	c := tb.Const("h0!"+key, srt)
	lit := func(x ast.Expr) *Term {
		tv, ok := info.Types[x]
		if !ok || tv.Value == nil {
			return nil
		}
		switch tv.Value.Kind() {
		case constant.Int:
			return tb.BigInt(tv.Value.ExactString())
		case constant.Bool:
			return tb.Bool(constant.BoolVal(tv.Value))
		case constant.String:
			return fc.strLit(constant.StringVal(tv.Value))
		}
		return nil
	}
	if v := lit(init); v != nil && v.Sort == srt {
		tb.AddAxiom("global "+g.Name(), tb.Eq(c, v))
		fc.note("package variable " + g.String() + " treated as constant (no store outside init found)")
		return
	}
	cl, ok := init.(*ast.CompositeLit)
	if !ok {
		delete(fc.eng.constGlobals, key)
		return
	}
	switch u := types.Unalias(t).Underlying().(type) {
	case *types.Array:
		var facts []*Term
		idx := int64(0)
		for _, el := range cl.Elts {
			if kv, isKV := el.(*ast.KeyValueExpr); isKV {
				ktv := info.Types[kv.Key]
				if ktv.Value == nil {
					delete(fc.eng.constGlobals, key)
					return
				}
				idx, _ = constant.Int64Val(ktv.Value)
				el = kv.Value
			}
			v := lit(el)
			if v == nil {
				delete(fc.eng.constGlobals, key)
				return
			}
			facts = append(facts, tb.Eq(tb.Select(c, tb.Int(idx)), v))
			idx++
		}
		_ = u
		tb.AddAxiom("global "+g.Name(), tb.And(facts...))
		fc.note("package variable " + g.String() + " treated as constant (no store outside init found)")
	default:
		// slices/maps of literals: the global holds a reference; contents live in the heap
		delete(fc.eng.constGlobals, key)
		if _, isSl := u.(*types.Slice); isSl {
			fc.assertGlobalSliceLiteral(key, g, cl, info)
		}
	}
}

// resolveAssign maps an assigns entry of a contract to heap keys.
func (e *Engine) resolveAssign(con *Contract, a string, fc *FnCtx) []string {
	if a == "*" {
		return []string{"*"}
	}
	if a == "nothing" {
		return nil
	}
	if _, ok := e.cs.Ghosts[a]; ok {
		return []string{"ghost:" + a}
	}
	if strings.Contains(a, ":") {
		return []string{a}
	}
	if i := strings.LastIndex(a, "."); i >= 0 {
		tn, f := a[:i], a[i+1:]
		// resolve type name in the contract's package, or qualified by package name
		var pkgs []*types.Package
		if con.Pkg != "" {
			if p := e.byPath[con.Pkg]; p != nil {
				pkgs = append(pkgs, p.Types)
			}
		}
		if j := strings.LastIndex(tn, "."); j >= 0 {
			pn := tn[:j]
			tn = tn[j+1:]
			pkgs = nil
			for _, p := range e.prog.AllPackages() {
				if p.Pkg.Name() == pn || p.Pkg.Path() == pn {
					pkgs = append(pkgs, p.Pkg)
				}
			}
		}
		for _, p := range pkgs {
			if obj := p.Scope().Lookup(tn); obj != nil {
				if f == "*" {
					var out []string
					if s, ok := isStructType(obj.Type()); ok {
						for i := 0; i < s.NumFields(); i++ {
							out = append(out, fieldKey(obj.Type(), s.Field(i).Name()))
						}
					}
					return out
				}
				return []string{fieldKey(obj.Type(), f)}
			}
		}
	}
	panic(unsupportedErr{"contract-stale: cannot resolve assigns entry " + a + " of " + con.Key})
}
