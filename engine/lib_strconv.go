package govc

// strconv.ParseInt / ParseUint: uninterpreted value and verdict functions of (s, base, bitSize);
// an accepted value lies in the range of bitSize (0 means 64), a rejected one returns 0?? no:
// ParseInt returns the clamped value with a range error; only the accepted case is modelled, the
// value on error is unconstrained.
func init() {
	mk := func(name string, signed bool) libFn {
		return func(fc *FnCtx, st *State, args []Val) Val {
			fc.usedLib("strconv." + name + ": (val, nil) with val in the range of bitSize when the string is accepted, else a non-nil error")
			tb := fc.tb
			s, base, bits := fc.term(args[0]), fc.term(args[1]), fc.term(args[2])
			vf := tb.DeclFun("strconv_"+name+"Val", []string{"Str", "Int", "Int"}, "Int")
			of := tb.DeclFun("strconv_"+name+"OK", []string{"Str", "Int", "Int"}, "Bool")
			ok := tb.App(of, "Bool", s, base, bits)
			v := tb.Fresh("parse", "Int")
			e := tb.Fresh("parseerr", "Iface")
			fc.assume(st, tb.Eq(tb.Eq(e, tb.Const("inil", "Iface")), ok))
			fc.assume(st, tb.Implies(ok, tb.Eq(v, tb.App(vf, "Int", s, base, bits))))
			// range by bit size
			rng := func(b int64, lo, hi string) *Term {
				return tb.Implies(tb.And(ok, tb.Eq(bits, tb.Int(b))), tb.And(tb.Le(tb.BigInt(lo), v), tb.Le(v, tb.BigInt(hi))))
			}
			if signed {
				fc.assume(st, tb.And(rng(8, "-128", "127"), rng(16, "-32768", "32767"), rng(32, "-2147483648", "2147483647"),
					rng(64, "-9223372036854775808", "9223372036854775807"), rng(0, "-9223372036854775808", "9223372036854775807")))
				fc.assume(st, tb.And(tb.Le(tb.BigInt("-9223372036854775808"), v), tb.Le(v, tb.BigInt("9223372036854775807"))))
			} else {
				fc.assume(st, tb.And(rng(8, "0", "255"), rng(16, "0", "65535"), rng(32, "0", "4294967295"),
					rng(64, "0", "18446744073709551615"), rng(0, "0", "18446744073709551615")))
				fc.assume(st, tb.And(tb.Le(tb.Int(0), v), tb.Le(v, tb.BigInt("18446744073709551615"))))
			}
			return Tuple{v, e}
		}
	}
	libModels["strconv.ParseInt"] = mk("ParseInt", true)
	libModels["strconv.ParseUint"] = mk("ParseUint", false)
	libImpure["strconv.ParseInt"] = true
	libImpure["strconv.ParseUint"] = true
}
