package govc

import "golang.org/x/tools/go/ssa"

// rangeIndexCell finds the hidden "rangeindex" cell of the range-over-slice loop with the
// given ordinal: the alloc named rangeindex that is stored to in the loop's head block.
func (fc *FnCtx) rangeIndexCell(ord int) *ssa.Alloc {
	for _, li := range fc.loopList {
		if li.ordinal != ord {
			continue
		}
		for _, in := range li.head.Instrs {
			if s, ok := in.(*ssa.Store); ok {
				if a, ok := s.Addr.(*ssa.Alloc); ok && a.Comment == "rangeindex" {
					return a
				}
			}
		}
	}
	return nil
}

// rangedValue finds the slice being ranged over by range-over-slice loop ord: the loop head
// compares the incremented index with len(X), X evaluated once before the loop.
func (fc *FnCtx) rangedValue(ord int) ssa.Value {
	for _, li := range fc.loopList {
		if li.ordinal != ord {
			continue
		}
		for _, in := range li.head.Instrs {
			if iff, ok := in.(*ssa.If); ok {
				if b, ok := iff.Cond.(*ssa.BinOp); ok {
					if c, ok := b.Y.(*ssa.Call); ok {
						if bi, ok := c.Call.Value.(*ssa.Builtin); ok && bi.Name() == "len" {
							return c.Call.Args[0]
						}
					}
				}
			}
		}
	}
	return nil
}
