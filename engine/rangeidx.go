package govc

import "golang.org/x/tools/go/ssa"

// rangeIndexCell finds the hidden "rangeindex" cell of the range-over-slice loop with the
// given ordinal: the alloc named rangeindex that is stored to in the loop's head block.
func (fc *FnCtx) rangeIndexCell(ord int) *ssa.Alloc {
	for _, li := range fc.loopList {
		if li.ordinal != ord {
			continue
		}
		for _, in := range li.head.Instrs {
			if s, ok := in.(*ssa.Store); ok {
				if a, ok := s.Addr.(*ssa.Alloc); ok && a.Comment == "rangeindex" {
					return a
				}
			}
		}
	}
	return nil
}
