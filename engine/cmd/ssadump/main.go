package main

import (
	"os"

	"golang.org/x/tools/go/packages"
	"golang.org/x/tools/go/ssa"
	"golang.org/x/tools/go/ssa/ssautil"
)

func main() {
	cfg := &packages.Config{Mode: packages.LoadAllSyntax, Dir: "/repo", BuildFlags: []string{"-tags=verif"}}
	pkgs, err := packages.Load(cfg, os.Args[1])
	if err != nil {
		panic(err)
	}
	prog, spkgs := ssautil.AllPackages(pkgs, ssa.NaiveForm|ssa.GlobalDebug)
	prog.Build()
	for _, p := range spkgs {
		if p == nil {
			continue
		}
		for _, name := range os.Args[2:] {
			if f := p.Func(name); f != nil {
				f.WriteTo(os.Stdout)
			}
			for _, m := range p.Members {
				if t, ok := m.(*ssa.Type); ok {
					for _, tt := range []interface{}{0, 1} {
						_ = tt
					}
					ms := prog.MethodSets.MethodSet(t.Type())
					for i := 0; i < ms.Len(); i++ {
						if ms.At(i).Obj().Name() == name {
							prog.MethodValue(ms.At(i)).WriteTo(os.Stdout)
						}
					}
				}
			}
		}
	}
}
