package main

import (
	"flag"
	"fmt"
	"os"
	"strconv"
	"strings"

	"govc"
)

type multiFlag []string

func (m *multiFlag) String() string     { return strings.Join(*m, ",") }
func (m *multiFlag) Set(s string) error { *m = append(*m, s); return nil }

func main() {
	if len(os.Args) < 2 {
		fmt.Println("usage: govc check|baseline|selftest|replay ...")
		os.Exit(2)
	}
	switch os.Args[1] {
	case "check", "baseline":
		fs := flag.NewFlagSet("check", flag.ExitOnError)
		prop := fs.String("property", "", "property id")
		tier := fs.String("tier", os.Getenv("VERIF_TIER"), "quick|thorough")
		repo := fs.String("repo", "/repo", "repository")
		verif := fs.String("verif", "/verif", "verif dir")
		only := fs.String("only", "", "obligation name filter")
		keep := fs.Bool("keep", false, "keep SMT files")
		nobase := fs.Bool("nobaseline", false, "treat unknown as violation")
		evdir := fs.String("evidence-dir", "", "write evidence/replays/work here instead of <verif>")
		var overlays multiFlag
		fs.Var(&overlays, "overlay", "path=replacement file (selftest only)")
		fs.Parse(os.Args[2:])
		if *tier == "" {
			*tier = "quick"
		}
		seed, _ := strconv.ParseInt(os.Getenv("VERIF_SEED"), 10, 64)
		cfg := &govc.CheckConfig{Property: *prop, Tier: *tier, Seed: seed, Repo: *repo, Verif: *verif, Only: *only, KeepSMT: *keep, NoBaseline: *nobase, EvidenceDir: *evdir}
		if len(overlays) > 0 {
			cfg.Overlay = map[string][]byte{}
			for _, o := range overlays {
				i := strings.Index(o, "=")
				b, err := os.ReadFile(o[i+1:])
				if err != nil {
					fmt.Println("ERROR", err)
					os.Exit(2)
				}
				cfg.Overlay[o[:i]] = b
			}
		}
		if os.Args[1] == "baseline" {
			if err := govc.UpdateBaseline(cfg); err != nil {
				fmt.Println("ERROR", err)
				os.Exit(2)
			}
			return
		}
		os.Exit(govc.RunCheck(cfg))
	case "selftest":
		fs := flag.NewFlagSet("selftest", flag.ExitOnError)
		prop := fs.String("property", "", "property id (empty: all)")
		verif := fs.String("verif", "/verif", "verif dir")
		repo := fs.String("repo", "/repo", "repository")
		fs.Parse(os.Args[2:])
		os.Exit(govc.RunSelftest(*verif, *repo, *prop))
	case "sweep":
		fs := flag.NewFlagSet("sweep", flag.ExitOnError)
		verif := fs.String("verif", "/verif", "verif dir")
		repo := fs.String("repo", "/repo", "repository")
		only := fs.String("only", "", "substring of function names")
		fs.Parse(os.Args[2:])
		os.Exit(govc.RunSweep(*repo, *verif, fs.Args(), *only))
	case "replay":
		if len(os.Args) < 3 {
			fmt.Println("usage: govc replay <replay.json>")
			os.Exit(2)
		}
		os.Exit(govc.RunReplay(os.Args[2]))
	}
	fmt.Println("unknown command")
	os.Exit(2)
}
