package govc

import (
	"fmt"
	"sort"

	"golang.org/x/tools/go/ssa"
)

// dynCallContract: a contract for the N-th (in source order) call of a function *value* inside
// the function under verification, keyed `dyncall:<func key>#N` in the package's contract file.
// It is how an assumption about e.g. registered predicates is stated (T5).
func (fc *FnCtx) dynCallContract(instr ssa.Instruction) (*Contract, string) {
	// a call through a package-level func variable: contract keyed `var:<name>` in the variable's package
	var cc0 *ssa.CallCommon
	switch x := instr.(type) {
	case *ssa.Call:
		cc0 = &x.Call
	case *ssa.Defer:
		cc0 = &x.Call
	}
	if cc0 != nil {
		if u, ok := cc0.Value.(*ssa.UnOp); ok {
			if g, ok := u.X.(*ssa.Global); ok && g.Pkg != nil {
				key := "var:" + g.Name()
				if c := fc.eng.cs.ByKey[g.Pkg.Pkg.Path()+"::"+key]; c != nil {
					return c, key
				}
			}
		}
	}
	type site struct {
		pos int
		in  ssa.Instruction
	}
	var sites []site
	for _, b := range fc.fn.Blocks {
		for _, in := range b.Instrs {
			var cc *ssa.CallCommon
			switch x := in.(type) {
			case *ssa.Call:
				cc = &x.Call
			case *ssa.Defer:
				cc = &x.Call
			}
			if cc == nil || cc.IsInvoke() {
				continue
			}
			switch cc.Value.(type) {
			case *ssa.Function, *ssa.Builtin, *ssa.MakeClosure:
				continue
			}
			if u, ok := cc.Value.(*ssa.UnOp); ok {
				// calls through package-level func variables are keyed var:<name>, not counted here
				if _, ok := u.X.(*ssa.Global); ok {
					continue
				}
			}
			sites = append(sites, site{int(in.Pos()), in})
		}
	}
	sort.SliceStable(sites, func(i, j int) bool { return sites[i].pos < sites[j].pos })
	for i, s := range sites {
		if s.in == instr {
			key := fmt.Sprintf("dyncall:%s#%d", funcKey(fc.fn), i)
			if fc.fn.Pkg != nil {
				if c := fc.eng.cs.ByKey[fc.fn.Pkg.Pkg.Path()+"::"+key]; c != nil {
					return c, key
				}
			}
			return nil, key
		}
	}
	return nil, ""
}
