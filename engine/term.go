package govc

import (
	"fmt"
	"sort"
	"strconv"
	"strings"
)

// Term is a hash-consed SMT term. Sort is the SMT-LIB text of its sort.
type Term struct {
	Op    string // operator / symbol; for literals the literal text
	Args  []*Term
	Sort  string
	ID    int
	Kind  int  // kLit, kConst, kApp, kQuant, kBound
	Bound bool // mentions a bound variable
	// quantifier data
	QVars []*Term
	Pats  []*Term
}

const (
	kLit = iota
	kConst
	kApp
	kQuant
	kBound
)

// TB is a term builder (hash-cons table + declarations).
type TB struct {
	tab    map[string]*Term
	nextID int
	// declarations, in order
	declOrder []string
	decls     map[string]string // symbol -> SMT declaration text
	sortDecls []string          // datatype / sort declarations in dependency order
	sortSeen  map[string]bool
	axioms    []*Term
	axiomTags []string
	fresh     int
	defs      []*smtDef // define-fun(-rec) blocks, in dependency order
	defSeen   map[string]bool
	accessors map[string]accInfo
}

func NewTB() *TB {
	tb := &TB{tab: map[string]*Term{}, decls: map[string]string{}, sortSeen: map[string]bool{}, defSeen: map[string]bool{}}
	return tb
}

func (tb *TB) key(op string, sort string, args []*Term) string {
	var sb strings.Builder
	sb.WriteString(op)
	sb.WriteByte('|')
	sb.WriteString(sort)
	for _, a := range args {
		sb.WriteByte(',')
		sb.WriteString(strconv.Itoa(a.ID))
	}
	return sb.String()
}

func (tb *TB) mk(kind int, op, sort string, args ...*Term) *Term {
	k := tb.key(op, sort, args)
	if t, ok := tb.tab[k]; ok {
		return t
	}
	t := &Term{Op: op, Args: args, Sort: sort, ID: tb.nextID, Kind: kind}
	tb.nextID++
	for _, a := range args {
		if a.Bound {
			t.Bound = true
		}
	}
	if kind == kBound {
		t.Bound = true
	}
	tb.tab[k] = t
	return t
}

func (tb *TB) Lit(text, sort string) *Term { return tb.mk(kLit, text, sort) }
func (tb *TB) Int(n int64) *Term {
	if n < 0 {
		return tb.mk(kLit, fmt.Sprintf("(- %d)", -n), "Int")
	}
	return tb.mk(kLit, strconv.FormatInt(n, 10), "Int")
}
func (tb *TB) BigInt(s string) *Term {
	if strings.HasPrefix(s, "-") {
		return tb.mk(kLit, "(- "+s[1:]+")", "Int")
	}
	return tb.mk(kLit, s, "Int")
}
func (tb *TB) True() *Term  { return tb.mk(kLit, "true", "Bool") }
func (tb *TB) False() *Term { return tb.mk(kLit, "false", "Bool") }
func (tb *TB) Bool(b bool) *Term {
	if b {
		return tb.True()
	}
	return tb.False()
}

// Const declares (once) and returns an SMT constant.
func (tb *TB) Const(name, sort string) *Term {
	name = mangle(name)
	if _, ok := tb.decls[name]; !ok {
		tb.decls[name] = fmt.Sprintf("(declare-fun %s () %s)", name, sort)
		tb.declOrder = append(tb.declOrder, name)
	}
	return tb.mk(kConst, name, sort)
}

// Fresh returns a new constant with a unique name.
func (tb *TB) Fresh(hint, sort string) *Term {
	tb.fresh++
	return tb.Const(fmt.Sprintf("%s!%d", hint, tb.fresh), sort)
}

// DeclFun declares an uninterpreted function (once).
func (tb *TB) DeclFun(name string, argSorts []string, ret string) string {
	name = mangle(name)
	if _, ok := tb.decls[name]; !ok {
		tb.decls[name] = fmt.Sprintf("(declare-fun %s (%s) %s)", name, strings.Join(argSorts, " "), ret)
		tb.declOrder = append(tb.declOrder, name)
	}
	return name
}

func (tb *TB) App(fn, sort string, args ...*Term) *Term {
	if len(args) == 0 {
		return tb.mk(kConst, fn, sort)
	}
	if s := tb.simplifyAcc(fn, args); s != nil && s.Sort == sort {
		return s
	}
	return tb.mk(kApp, fn, sort, args...)
}

func (tb *TB) BoundVar(name, sort string) *Term {
	return tb.mk(kBound, mangle(name), sort)
}

var quantCounter int

func (tb *TB) Quant(forall bool, vars []*Term, body *Term, pats ...*Term) *Term {
	if len(vars) == 0 {
		return body
	}
	op := "forall"
	if !forall {
		op = "exists"
	}
	// quantifiers are not hash-consed on structure of vars; build key from ids
	args := append([]*Term{}, vars...)
	args = append(args, body)
	args = append(args, pats...)
	k := tb.key(op+fmt.Sprint(len(vars), len(pats)), "Bool", args)
	if t, ok := tb.tab[k]; ok {
		return t
	}
	t := &Term{Op: op, Args: []*Term{body}, Sort: "Bool", ID: tb.nextID, Kind: kQuant, QVars: vars, Pats: pats}
	tb.nextID++
	// Bound iff it mentions bound variables other than its own
	t.Bound = mentionsOtherBound(body, vars) || anyMentionsOtherBound(pats, vars)
	tb.tab[k] = t
	return t
}

func anyMentionsOtherBound(ts []*Term, own []*Term) bool {
	for _, t := range ts {
		if mentionsOtherBound(t, own) {
			return true
		}
	}
	return false
}

func mentionsOtherBound(t *Term, own []*Term) bool {
	if !t.Bound {
		return false
	}
	seen := map[*Term]bool{}
	var walk func(t *Term, own []*Term) bool
	walk = func(t *Term, own []*Term) bool {
		if !t.Bound {
			return false
		}
		if t.Kind == kBound {
			for _, o := range own {
				if o == t {
					return false
				}
			}
			return true
		}
		if t.Kind == kQuant {
			own2 := append(append([]*Term{}, own...), t.QVars...)
			if walk(t.Args[0], own2) {
				return true
			}
			for _, p := range t.Pats {
				if walk(p, own2) {
					return true
				}
			}
			return false
		}
		if seen[t] {
			return false
		}
		// note: caching is only valid for the same 'own' set; terms under nested
		// quantifiers are visited with a larger set, so only cache at top level
		for _, a := range t.Args {
			if walk(a, own) {
				return true
			}
		}
		return false
	}
	return walk(t, own)
}

// ---------- convenience constructors with light simplification

func (tb *TB) Not(a *Term) *Term {
	if a.Op == "true" && a.Kind == kLit {
		return tb.False()
	}
	if a.Op == "false" && a.Kind == kLit {
		return tb.True()
	}
	if a.Kind == kApp && a.Op == "not" {
		return a.Args[0]
	}
	return tb.mk(kApp, "not", "Bool", a)
}

func isTrue(t *Term) bool  { return t.Kind == kLit && t.Op == "true" }
func isFalse(t *Term) bool { return t.Kind == kLit && t.Op == "false" }

func (tb *TB) And(as ...*Term) *Term {
	var out []*Term
	seen := map[*Term]bool{}
	for _, a := range as {
		if a == nil || isTrue(a) {
			continue
		}
		if isFalse(a) {
			return tb.False()
		}
		if a.Kind == kApp && a.Op == "and" {
			for _, x := range a.Args {
				if !seen[x] {
					seen[x] = true
					out = append(out, x)
				}
			}
			continue
		}
		if !seen[a] {
			seen[a] = true
			out = append(out, a)
		}
	}
	if len(out) == 0 {
		return tb.True()
	}
	if len(out) == 1 {
		return out[0]
	}
	return tb.mk(kApp, "and", "Bool", out...)
}

func (tb *TB) Or(as ...*Term) *Term {
	var out []*Term
	seen := map[*Term]bool{}
	for _, a := range as {
		if a == nil || isFalse(a) {
			continue
		}
		if isTrue(a) {
			return tb.True()
		}
		if a.Kind == kApp && a.Op == "or" {
			for _, x := range a.Args {
				if !seen[x] {
					seen[x] = true
					out = append(out, x)
				}
			}
			continue
		}
		if !seen[a] {
			seen[a] = true
			out = append(out, a)
		}
	}
	if len(out) == 0 {
		return tb.False()
	}
	if len(out) == 1 {
		return out[0]
	}
	return tb.mk(kApp, "or", "Bool", out...)
}

func (tb *TB) Implies(a, b *Term) *Term {
	if isTrue(a) {
		return b
	}
	if isFalse(a) || isTrue(b) {
		return tb.True()
	}
	if isFalse(b) {
		return tb.Not(a)
	}
	return tb.mk(kApp, "=>", "Bool", a, b)
}

func (tb *TB) Eq(a, b *Term) *Term {
	if a == b {
		return tb.True()
	}
	if a.Sort != b.Sort {
		panic(fmt.Sprintf("Eq: sort mismatch %s vs %s (%s = %s)", a.Sort, b.Sort, tb.Show(a), tb.Show(b)))
	}
	if a.Kind == kLit && b.Kind == kLit {
		return tb.False() // distinct literals of the same sort (ints, bools)
	}
	if a.ID > b.ID {
		a, b = b, a
	}
	return tb.mk(kApp, "=", "Bool", a, b)
}

func (tb *TB) Ite(c, a, b *Term) *Term {
	if isTrue(c) {
		return a
	}
	if isFalse(c) {
		return b
	}
	if a == b {
		return a
	}
	if a.Sort != b.Sort {
		panic(fmt.Sprintf("Ite: sort mismatch %s vs %s", a.Sort, b.Sort))
	}
	if a.Sort == "Bool" {
		if isTrue(a) && isFalse(b) {
			return c
		}
		if isFalse(a) && isTrue(b) {
			return tb.Not(c)
		}
	}
	return tb.mk(kApp, "ite", a.Sort, c, a, b)
}

func litInt(t *Term) (int64, bool) {
	if t.Kind != kLit || t.Sort != "Int" {
		return 0, false
	}
	s := t.Op
	neg := false
	if strings.HasPrefix(s, "(- ") {
		neg = true
		s = s[3 : len(s)-1]
	}
	n, err := strconv.ParseInt(s, 10, 64)
	if err != nil {
		return 0, false
	}
	if neg {
		n = -n
	}
	return n, true
}

func (tb *TB) Add(a, b *Term) *Term {
	if x, ok := litInt(a); ok {
		if y, ok := litInt(b); ok {
			s := x + y
			if (s > x) == (y > 0) {
				return tb.Int(s)
			}
		}
		if x == 0 {
			return b
		}
	}
	if y, ok := litInt(b); ok && y == 0 {
		return a
	}
	return tb.mk(kApp, "+", "Int", a, b)
}

func (tb *TB) Sub(a, b *Term) *Term {
	if x, ok := litInt(a); ok {
		if y, ok := litInt(b); ok {
			s := x - y
			if (s < x) == (y > 0) {
				return tb.Int(s)
			}
		}
	}
	if y, ok := litInt(b); ok && y == 0 {
		return a
	}
	if a == b {
		return tb.Int(0)
	}
	return tb.mk(kApp, "-", "Int", a, b)
}

func (tb *TB) Mul(a, b *Term) *Term {
	if x, ok := litInt(a); ok {
		if y, ok := litInt(b); ok {
			if x == 0 || y == 0 {
				return tb.Int(0)
			}
			p := x * y
			if p/y == x && x < 1<<31 && x > -(1<<31) && y < 1<<31 && y > -(1<<31) {
				return tb.Int(p)
			}
		}
	}
	return tb.mk(kApp, "*", "Int", a, b)
}

func (tb *TB) Lt(a, b *Term) *Term { return tb.cmp("<", a, b) }
func (tb *TB) Le(a, b *Term) *Term { return tb.cmp("<=", a, b) }
func (tb *TB) Gt(a, b *Term) *Term { return tb.cmp(">", a, b) }
func (tb *TB) Ge(a, b *Term) *Term { return tb.cmp(">=", a, b) }
func (tb *TB) cmp(op string, a, b *Term) *Term {
	if x, ok := litInt(a); ok {
		if y, ok := litInt(b); ok {
			switch op {
			case "<":
				return tb.Bool(x < y)
			case "<=":
				return tb.Bool(x <= y)
			case ">":
				return tb.Bool(x > y)
			case ">=":
				return tb.Bool(x >= y)
			}
		}
	}
	return tb.mk(kApp, op, "Bool", a, b)
}

func arraySorts(s string) (idx, elem string, ok bool) {
	if !strings.HasPrefix(s, "(Array ") {
		return "", "", false
	}
	inner := s[len("(Array ") : len(s)-1]
	// split inner into two sort expressions
	depth := 0
	for i, c := range inner {
		switch c {
		case '(':
			depth++
		case ')':
			depth--
		case ' ':
			if depth == 0 {
				return inner[:i], inner[i+1:], true
			}
		}
	}
	return "", "", false
}

func ArraySort(idx, elem string) string { return "(Array " + idx + " " + elem + ")" }

func (tb *TB) Select(arr, idx *Term) *Term {
	_, es, ok := arraySorts(arr.Sort)
	if !ok {
		panic("Select on non-array " + arr.Sort)
	}
	// select(store(a,i,v), i) = v
	cur := arr
	for cur.Kind == kApp && cur.Op == "store" {
		if cur.Args[1] == idx {
			return cur.Args[2]
		}
		// can skip only if indices are provably distinct (distinct literals)
		if cur.Args[1].Kind == kLit && idx.Kind == kLit {
			cur = cur.Args[0]
			continue
		}
		break
	}
	return tb.mk(kApp, "select", es, cur, idx)
}

func (tb *TB) Store(arr, idx, val *Term) *Term {
	is, es, ok := arraySorts(arr.Sort)
	if !ok {
		panic("Store on non-array " + arr.Sort)
	}
	if is != idx.Sort || es != val.Sort {
		panic(fmt.Sprintf("Store: sort mismatch arr=%s idx=%s val=%s", arr.Sort, idx.Sort, val.Sort))
	}
	return tb.mk(kApp, "store", arr.Sort, arr, idx, val)
}

// ---------- printing

var smtReserved = map[string]bool{"as": true, "let": true, "par": true, "exists": true, "forall": true, "assert": true, "not": true,
	"and": true, "or": true, "ite": true, "select": true, "store": true, "true": true, "false": true, "div": true, "mod": true, "abs": true,
	"define-fun": true, "declare-fun": true, "push": true, "pop": true, "match": true, "_": true, "!": true, "Int": true, "Bool": true,
	"Array": true, "Real": true, "String": true, "distinct": true, "xor": true, "is": true, "to_real": true, "to_int": true, "len": true, "at": true}

func mangle(s string) string {
	var sb strings.Builder
	for _, c := range s {
		switch {
		case c >= 'a' && c <= 'z', c >= 'A' && c <= 'Z', c >= '0' && c <= '9', c == '_', c == '!', c == '.':
			sb.WriteRune(c)
		case c == '$':
			sb.WriteString("_D_")
		case c == '*':
			sb.WriteString("_P_")
		case c == '/':
			sb.WriteString("_S_")
		case c == '(' || c == ')':
		case c == '[':
			sb.WriteString("_L_")
		case c == ']':
			sb.WriteString("_R_")
		case c == ' ':
			sb.WriteString("_")
		case c == '-':
			sb.WriteString("_M_")
		case c == '#':
			sb.WriteString("_H_")
		default:
			sb.WriteString(fmt.Sprintf("_u%x_", c))
		}
	}
	r := sb.String()
	if smtReserved[r] || (len(r) > 0 && r[0] >= '0' && r[0] <= '9') {
		r = "v_" + r
	}
	return r
}

// Show renders a term inline (no sharing); for debugging and small terms.
func (tb *TB) Show(t *Term) string {
	var sb strings.Builder
	tb.write(&sb, t, nil)
	return sb.String()
}

func (tb *TB) write(sb *strings.Builder, t *Term, named map[*Term]string) {
	if named != nil {
		if n, ok := named[t]; ok {
			sb.WriteString(n)
			return
		}
	}
	switch t.Kind {
	case kLit, kConst, kBound:
		sb.WriteString(t.Op)
	case kQuant:
		sb.WriteString("(" + t.Op + " (")
		for i, v := range t.QVars {
			if i > 0 {
				sb.WriteByte(' ')
			}
			sb.WriteString("(" + v.Op + " " + v.Sort + ")")
		}
		sb.WriteString(") ")
		if len(t.Pats) > 0 {
			sb.WriteString("(! ")
		}
		tb.write(sb, t.Args[0], named)
		if len(t.Pats) > 0 {
			for _, p := range t.Pats {
				sb.WriteString(" :pattern (")
				if p.Kind == kApp && p.Op == "" {
					// multi-pattern group
					for i, a := range p.Args {
						if i > 0 {
							sb.WriteByte(' ')
						}
						tb.write(sb, a, named)
					}
				} else {
					tb.write(sb, p, named)
				}
				sb.WriteString(")")
			}
			sb.WriteString(")")
		}
		sb.WriteString(")")
	default:
		sb.WriteByte('(')
		sb.WriteString(t.Op)
		for _, a := range t.Args {
			sb.WriteByte(' ')
			tb.write(sb, a, named)
		}
		sb.WriteByte(')')
	}
}

// Script renders a complete SMT-LIB script that asserts all hyps and the
// negation of goal. Shared sub-terms are hoisted into define-funs.
func (tb *TB) Script(hyps []*Term, goal *Term, getValues []*Term, opts ScriptOpts) string {
	var sb strings.Builder
	if opts.ProduceModels {
		sb.WriteString("(set-option :produce-models true)\n")
	}
	sb.WriteString("(set-logic ALL)\n")
	for _, d := range tb.sortDecls {
		sb.WriteString(d)
		sb.WriteByte('\n')
	}
	// collect reachable terms
	roots := append([]*Term{}, hyps...)
	roots = append(roots, tb.axioms...)
	if goal != nil {
		roots = append(roots, goal)
	}
	roots = append(roots, getValues...)
	reach := map[*Term]int{}
	var order []*Term
	var visit func(t *Term)
	visit = func(t *Term) {
		reach[t]++
		if reach[t] > 1 {
			return
		}
		for _, a := range t.Args {
			visit(a)
		}
		for _, p := range t.Pats {
			visit(p)
		}
		order = append(order, t)
	}
	for _, r := range roots {
		visit(r)
	}
	// declarations: all declared symbols, in declaration order (cheap, and defs may need them)
	used := map[string]bool{}
	for _, t := range order {
		if t.Kind == kConst || t.Kind == kApp {
			used[t.Op] = true
		}
	}
	for _, name := range tb.declOrder {
		_ = name
	}
	// close 'used' through definitions
	for changed := true; changed; {
		changed = false
		for _, d := range tb.defs {
			if used[d.name] {
				for _, u := range d.uses {
					if !used[u] {
						used[u] = true
						changed = true
					}
				}
			}
		}
	}
	for _, name := range tb.declOrder {
		if used[name] || opts.AllDecls {
			sb.WriteString(tb.decls[name])
			sb.WriteByte('\n')
		}
	}
	for _, d := range tb.defs {
		if used[d.name] || opts.AllDecls {
			sb.WriteString(d.text)
			sb.WriteByte('\n')
		}
	}
	named := map[*Term]string{}
	sort.Slice(order, func(i, j int) bool { return order[i].ID < order[j].ID })
	// ground sub-terms of quantifier patterns must be real constants: solvers expand define-fun
	// macros inside patterns and then reject patterns containing ite/and/not
	inPattern := map[*Term]bool{}
	var markPat func(t *Term)
	markPat = func(t *Term) {
		if !t.Bound {
			if t.Kind == kApp {
				inPattern[t] = true
			}
			return
		}
		for _, a := range t.Args {
			markPat(a)
		}
	}
	for _, t := range order {
		if t.Kind == kQuant {
			for _, p := range t.Pats {
				markPat(p)
			}
		}
	}
	for _, t := range order {
		if t.Bound || t.Kind != kApp && t.Kind != kQuant {
			continue
		}
		if !inPattern[t] && reach[t] < 2 && t.Kind != kQuant && termSize(t, 12) < 12 {
			continue
		}
		name := fmt.Sprintf("n!%d", t.ID)
		var b strings.Builder
		tb.write(&b, t, named) // children already named
		if inPattern[t] {
			fmt.Fprintf(&sb, "(declare-fun %s () %s)\n(assert (= %s %s))\n", name, t.Sort, name, b.String())
		} else {
			fmt.Fprintf(&sb, "(define-fun %s () %s %s)\n", name, t.Sort, b.String())
		}
		named[t] = name
	}
	for i, a := range tb.axioms {
		var b strings.Builder
		tb.write(&b, a, named)
		fmt.Fprintf(&sb, "(assert %s) ; axiom %s\n", b.String(), tb.axiomTags[i])
	}
	for _, h := range hyps {
		var b strings.Builder
		tb.write(&b, h, named)
		fmt.Fprintf(&sb, "(assert %s)\n", b.String())
	}
	if goal != nil {
		var b strings.Builder
		tb.write(&b, goal, named)
		fmt.Fprintf(&sb, "(assert (not %s))\n", b.String())
	}
	sb.WriteString("(check-sat)\n")
	if len(getValues) > 0 {
		sb.WriteString("(get-value (")
		for _, g := range getValues {
			var b strings.Builder
			tb.write(&b, g, nil)
			sb.WriteString(b.String())
			sb.WriteByte(' ')
		}
		sb.WriteString("))\n")
	}
	return sb.String()
}

type smtDef struct {
	name string
	text string
	uses []string
}

type ScriptOpts struct {
	ProduceModels bool
	AllDecls      bool
}

func termSize(t *Term, cap int) int {
	n := 1
	for _, a := range t.Args {
		n += termSize(a, cap-n)
		if n >= cap {
			return n
		}
	}
	return n
}

func (tb *TB) AddAxiom(tag string, t *Term) {
	for i, g := range tb.axiomTags {
		if g == tag && tb.axioms[i] == t {
			return
		}
	}
	tb.axioms = append(tb.axioms, t)
	tb.axiomTags = append(tb.axiomTags, tag)
}

func (tb *TB) AddSortDecl(name, decl string) {
	if tb.sortSeen[name] {
		return
	}
	tb.sortSeen[name] = true
	tb.sortDecls = append(tb.sortDecls, decl)
}

func (tb *TB) AddDef(name, text string, uses []string) {
	if tb.defSeen[name] {
		return
	}
	tb.defSeen[name] = true
	tb.defs = append(tb.defs, &smtDef{name, text, uses})
}

// UsedSyms lists the declared/defined symbols occurring in t.
func UsedSyms(t *Term, into map[string]bool) {
	seen := map[*Term]bool{}
	var walk func(t *Term)
	walk = func(t *Term) {
		if seen[t] {
			return
		}
		seen[t] = true
		if t.Kind == kConst || t.Kind == kApp {
			into[t.Op] = true
		}
		for _, a := range t.Args {
			walk(a)
		}
		for _, a := range t.Pats {
			walk(a)
		}
	}
	walk(t)
}
