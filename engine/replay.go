package govc

import (
	"bytes"
	"encoding/json"
	"fmt"
	"go/types"
	"os"
	"os/exec"
	"path/filepath"
	"regexp"
	"strconv"
	"strings"

	"golang.org/x/tools/go/ssa"
)

// buildReplay: ask the solver for the values of the function's inputs in the counterexample,
// write an in-package Go test that calls the real function with them and evaluates the
// contract, and run it against the real code (through a build overlay; /repo is not written).
func (fc *FnCtx) buildReplay(cfg *CheckConfig, r *OblResult) map[string]interface{} {
	out := map[string]interface{}{}
	defer func() {
		if e := recover(); e != nil {
			out["replay_status"] = fmt.Sprintf("not-concretised: %v", e)
		}
	}()
	tb := fc.tb
	fn := fc.fn
	if fn.Signature.Recv() != nil || len(fn.FreeVars) > 0 {
		out["replay_status"] = "not-concretised: methods/closures need heap inputs"
		return out
	}
	// which values to ask for
	var asks []*Term
	type pinfo struct {
		name string
		t    types.Type
		term *Term
		kind string
	}
	var ps []pinfo
	for i, p := range fn.Params {
		t := fc.params[i]
		k := ""
		switch t.Sort {
		case "Int":
			k = "int"
			asks = append(asks, t)
		case "Bool":
			k = "bool"
			asks = append(asks, t)
		case "Str":
			k = "str"
			asks = append(asks, tb.App("s_len", "Int", t))
			for j := 0; j < 24; j++ {
				asks = append(asks, tb.App("s_at", "Int", t, tb.Int(int64(j))))
			}
		default:
			out["replay_status"] = "not-concretised: parameter " + p.Name() + " of sort " + t.Sort
			return out
		}
		ps = append(ps, pinfo{p.Name(), p.Type(), t, k})
	}
	hyps := append([]*Term{}, fc.hyps[:r.obl.NHyps]...)
	hyps = append(hyps, r.obl.Reach)
	script := tb.Script(hyps, r.obl.Goal, asks, ScriptOpts{ProduceModels: true})
	res := Solve(script, scratchDir(cfg), r.Name+"_model", 20, true)
	if res.Status != "sat" {
		out["replay_status"] = "not-concretised: model query answered " + res.Status
		return out
	}
	vals := parseGetValue(res.Model)
	idx := 0
	next := func() (string, bool) {
		if idx >= len(vals) {
			return "", false
		}
		v := vals[idx]
		idx++
		return v, true
	}
	var goArgs []string
	inputs := map[string]interface{}{}
	for _, p := range ps {
		switch p.kind {
		case "int":
			v, _ := next()
			n := smtInt(v)
			goArgs = append(goArgs, fmt.Sprintf("%s(%s)", goTypeName(p.t, fn), n))
			inputs[p.name] = n
		case "bool":
			v, _ := next()
			goArgs = append(goArgs, v)
			inputs[p.name] = v
		case "str":
			lv, _ := next()
			ln, _ := strconv.Atoi(smtInt(lv))
			var bs []byte
			for j := 0; j < 24; j++ {
				v, _ := next()
				b, _ := strconv.Atoi(smtInt(v))
				if j < ln {
					bs = append(bs, byte(b))
				}
			}
			if ln > 24 {
				out["replay_status"] = fmt.Sprintf("not-concretised: string %s of length %d in the model", p.name, ln)
				return out
			}
			goArgs = append(goArgs, fmt.Sprintf("string(%#v)", bs))
			inputs[p.name] = string(bs)
		}
	}
	out["inputs"] = inputs
	// Go rendering of the ensures clauses
	var checks []string
	nres := fn.Signature.Results().Len()
	var resNames []string
	for i := 0; i < nres; i++ {
		resNames = append(resNames, fmt.Sprintf("r%d", i))
	}
	if fc.con != nil {
		for j, c := range fc.con.Ensures {
			g, ok := goExpr(c.Expr, fn, resNames)
			if ok {
				checks = append(checks, fmt.Sprintf("\tif !(%s) {\n\t\tt.Errorf(\"GOVC-REPLAY ensures #%d violated on the real code: %%s\", %q)\n\t}\n", g, j, c.Text))
			}
		}
	}
	var tf bytes.Buffer
	pkgName := fn.Pkg.Pkg.Name()
	fmt.Fprintf(&tf, "//go:build verif\n\npackage %s\n\nimport \"testing\"\n\nfunc TestGovcReplay(t *testing.T) {\n", pkgName)
	call := fmt.Sprintf("%s(%s)", fn.Name(), strings.Join(goArgs, ", "))
	if nres > 0 {
		fmt.Fprintf(&tf, "\t%s := %s\n", strings.Join(resNames, ", "), call)
		for _, rn := range resNames {
			fmt.Fprintf(&tf, "\t_ = %s\n", rn)
		}
		fmt.Fprintf(&tf, "\tt.Logf(\"GOVC-REPLAY results: %s\", %s)\n", strings.Repeat("%#v ", nres), strings.Join(resNames, ", "))
	} else {
		fmt.Fprintf(&tf, "\t%s\n", call)
	}
	for _, c := range checks {
		tf.WriteString(c)
	}
	tf.WriteString("}\n")
	out["test_source"] = tf.String()
	pkgDir := strings.TrimPrefix(fn.Pkg.Pkg.Path(), snapdMod+"/")
	out["package_dir"] = pkgDir
	out["checks_compiled"] = len(checks)
	status, log := runReplayTest(cfg.Repo, pkgDir, tf.String(), cfg.Overlay)
	out["replay_status"] = status
	out["replay_log"] = truncate(log, 4000)
	return out
}

// runReplayTest runs the generated test against the real code. Returns "reproduced" when an
// ensures clause evaluates to false (or the function panics), "not-reproduced" when all hold.
func runReplayTest(repo, pkgDir, src string, extra map[string][]byte) (string, string) {
	tmp, err := os.MkdirTemp("", "govc-replay-")
	if err != nil {
		return "not-run: " + err.Error(), ""
	}
	defer os.RemoveAll(tmp)
	tf := filepath.Join(tmp, "zz_govc_replay_test.go")
	os.WriteFile(tf, []byte(src), 0o644)
	ov := map[string]map[string]string{"Replace": {filepath.Join(repo, pkgDir, "zz_govc_replay_test.go"): tf}}
	i := 0
	for path, content := range extra {
		f := filepath.Join(tmp, fmt.Sprintf("ov%d.go", i))
		i++
		os.WriteFile(f, content, 0o644)
		ov["Replace"][path] = f
	}
	ob, _ := json.Marshal(ov)
	ovf := filepath.Join(tmp, "ov.json")
	os.WriteFile(ovf, ob, 0o644)
	cmd := exec.Command("go", "test", "-tags", "verif", "-overlay", ovf, "-vet=off", "-count=1", "-timeout", "60s", "-v", "-run", "^TestGovcReplay$", "./"+pkgDir+"/")
	cmd.Dir = repo
	cmd.Env = append(os.Environ(), "GOFLAGS=-mod=mod", "GOPROXY=off", "GOSUMDB=off", "GOTOOLCHAIN=local")
	var outb bytes.Buffer
	cmd.Stdout = &outb
	cmd.Stderr = &outb
	cmd.Run()
	log := outb.String()
	switch {
	case strings.Contains(log, "GOVC-REPLAY ensures"):
		return "reproduced", log
	case strings.Contains(log, "panic:"):
		return "reproduced (panic)", log
	case strings.Contains(log, "GOVC-REPLAY results") || strings.Contains(log, "PASS"):
		return "not-reproduced", log
	}
	return "not-run", log
}

// RunReplay re-runs a stored replay file against the current tree.
func RunReplay(path string) int {
	var rep map[string]interface{}
	if err := loadJSON(path, &rep); err != nil {
		fmt.Println("ERROR", err)
		return 2
	}
	if k, _ := rep["kind"].(string); k == "bounded" {
		// a mismatch found by a bounded stand-in: the failing inputs are listed, the stand-in is re-run
		fmt.Printf("bounded stand-in: %v\nfailing inputs:\n", rep["obligation"])
		if l, ok := rep["failing_inputs"].([]interface{}); ok {
			for _, x := range l {
				fmt.Printf("  %v\n", x)
			}
		}
		rerun, _ := rep["rerun"].(string)
		fmt.Println("re-running:", rerun)
		cmd := exec.Command("/bin/sh", "-c", rerun)
		cmd.Dir = "/verif"
		out, err := cmd.CombinedOutput()
		fmt.Println(lastLines(string(out), 15))
		if err != nil {
			return 1
		}
		return 0
	}
	fmt.Printf("obligation: %v\nclause: %v\nwhere: %v\nsolver: %v (%v)\n", rep["obligation"], rep["clause"], rep["where"], rep["solver"], rep["solver_status"])
	src, _ := rep["test_source"].(string)
	dir, _ := rep["package_dir"].(string)
	if src == "" {
		fmt.Printf("no concrete input in this replay file (%v); the failed obligation and the solver output are in the file\n", rep["replay_status"])
		return 1
	}
	fmt.Printf("inputs: %v\n", rep["inputs"])
	status, log := runReplayTest("/repo", dir, src, nil)
	fmt.Println(log)
	fmt.Println("replay:", status)
	if strings.HasPrefix(status, "reproduced") {
		return 1
	}
	return 0
}

var reGetVal = regexp.MustCompile(`\(\s*(\(- \d+\)|-?\d+|true|false)\s*\)\s*$`)

// parseGetValue extracts the values, in order, from a (get-value ...) answer.
func parseGetValue(s string) []string {
	// the answer is a list of (term value) pairs; values here are ints/bools. Scan pairs by
	// matching parentheses at depth 1.
	var out []string
	s = strings.TrimSpace(s)
	depth := 0
	start := -1
	for i := 0; i < len(s); i++ {
		switch s[i] {
		case '(':
			depth++
			if depth == 2 {
				start = i
			}
		case ')':
			if depth == 2 && start >= 0 {
				pair := s[start : i+1]
				if m := reGetVal.FindStringSubmatch(pair); m != nil {
					out = append(out, m[1])
				} else {
					out = append(out, "?")
				}
				start = -1
			}
			depth--
		}
	}
	return out
}

func smtInt(v string) string {
	v = strings.TrimSpace(v)
	if strings.HasPrefix(v, "(- ") {
		return "-" + strings.TrimSuffix(v[3:], ")")
	}
	return v
}

func goTypeName(t types.Type, fn interface{ Name() string }) string {
	return types.TypeString(t, func(p *types.Package) string { return "" })
}

// goExpr renders a contract expression as Go source (in-package), when it is in the
// executable fragment: no old(), no heap, quantifiers only in bounded form.
func goExpr(e CExpr, fn interface{}, res []string) (string, bool) {
	switch e := e.(type) {
	case *CInt:
		return e.Val, true
	case *CStr:
		return strconv.Quote(e.Val), true
	case *CIdent:
		switch {
		case e.Name == "result":
			if len(res) == 0 {
				return "", false
			}
			return res[0], true
		case strings.HasPrefix(e.Name, "result") && len(e.Name) == 7:
			i := int(e.Name[6] - '0')
			if i < len(res) {
				return res[i], true
			}
			return "", false
		}
		return e.Name, true
	case *CUn:
		x, ok := goExpr(e.X, fn, res)
		if !ok || e.Op == "*" {
			return "", false
		}
		return "(" + e.Op + x + ")", true
	case *CBin:
		l, ok1 := goExpr(e.L, fn, res)
		r, ok2 := goExpr(e.R, fn, res)
		if !ok1 || !ok2 {
			return "", false
		}
		switch e.Op {
		case "==>":
			return "(!(" + l + ") || (" + r + "))", true
		case "<==>":
			return "((" + l + ") == (" + r + "))", true
		}
		return "(" + l + " " + e.Op + " " + r + ")", true
	case *CCall:
		id, ok := e.Fun.(*CIdent)
		if !ok {
			return "", false
		}
		switch id.Name {
		case "old", "has", "visited", "tag", "infunc":
			return "", false
		case "ite":
			if len(e.Args) != 3 {
				return "", false
			}
			c, ok1 := goExpr(e.Args[0], fn, res)
			a, ok2 := goExpr(e.Args[1], fn, res)
			b, ok3 := goExpr(e.Args[2], fn, res)
			if !ok1 || !ok2 || !ok3 {
				return "", false
			}
			return fmt.Sprintf("func() interface{} { if %s { return %s }; return %s }()", c, a, b), true
		}
		var args []string
		for _, a := range e.Args {
			s, ok := goExpr(a, fn, res)
			if !ok {
				return "", false
			}
			args = append(args, s)
		}
		return id.Name + "(" + strings.Join(args, ", ") + ")", true
	case *CIndex:
		x, ok1 := goExpr(e.X, fn, res)
		i, ok2 := goExpr(e.I, fn, res)
		if !ok1 || !ok2 {
			return "", false
		}
		return x + "[" + i + "]", true
	case *CSlice:
		x, ok := goExpr(e.X, fn, res)
		if !ok {
			return "", false
		}
		lo, hi := "", ""
		if e.Lo != nil {
			if lo, ok = goExpr(e.Lo, fn, res); !ok {
				return "", false
			}
		}
		if e.Hi != nil {
			if hi, ok = goExpr(e.Hi, fn, res); !ok {
				return "", false
			}
		}
		return x + "[" + lo + ":" + hi + "]", true
	case *CSel:
		x, ok := goExpr(e.X, fn, res)
		if !ok {
			return "", false
		}
		return x + "." + e.Name, true
	}
	return "", false
}

// searchReplay: when the solver gives no model (quantified / recursive goals answer unknown),
// enumerate small inputs against the real code with the compiled ensures clauses as oracle,
// to attach a concrete failing input to the violation. It never decides anything.
func (fc *FnCtx) searchReplay(cfg *CheckConfig, r *OblResult) map[string]interface{} {
	out := map[string]interface{}{}
	fn := fc.fn
	if fn.Signature.Recv() != nil || len(fn.FreeVars) > 0 || fc.con == nil {
		out["replay_status"] = "no-search: not a plain function"
		return out
	}
	nres := fn.Signature.Results().Len()
	var resNames []string
	for i := 0; i < nres; i++ {
		resNames = append(resNames, fmt.Sprintf("r%d", i))
	}
	var checks []string
	for j, c := range fc.con.Ensures {
		if g, ok := goExpr(c.Expr, fn, resNames); ok {
			checks = append(checks, fmt.Sprintf("if !(%s) { t.Fatalf(\"GOVC-REPLAY ensures #%d violated on the real code: %%s with inputs %%#v\", %q, []interface{}{%s}) }", g, j, c.Text, paramList(fn.Params)))
		}
	}
	var reqs []string
	for _, c := range fc.con.Requires {
		g, ok := goExpr(c.Expr, fn, nil)
		if !ok {
			out["replay_status"] = "no-search: requires clause not executable"
			return out
		}
		reqs = append(reqs, "if !("+g+") { return }")
	}
	if len(checks) == 0 {
		out["replay_status"] = "no-search: no executable ensures clause"
		return out
	}
	nstr := 0
	for _, p := range fn.Params {
		if fc.so.Sort(p.Type()) == "Str" {
			nstr++
		}
	}
	maxLen := 5
	if nstr >= 2 {
		maxLen = 3
	}
	if nstr >= 3 {
		maxLen = 2
	}
	var tf bytes.Buffer
	fmt.Fprintf(&tf, "//go:build verif\n\npackage %s\n\nimport \"testing\"\n\n", fn.Pkg.Pkg.Name())
	tf.WriteString("func govcStrings(maxLen int) []string {\n\talpha := []byte(\"0a.-~:1+Z \")\n\tout := []string{\"\"}\n\tlast := []string{\"\"}\n\tfor l := 1; l <= maxLen; l++ {\n\t\tvar cur []string\n\t\tfor _, s := range last {\n\t\t\tfor _, c := range alpha {\n\t\t\t\tcur = append(cur, s+string(c))\n\t\t\t}\n\t\t}\n\t\tout = append(out, cur...)\n\t\tlast = cur\n\t}\n\treturn out\n}\n\n")
	tf.WriteString("func TestGovcReplay(t *testing.T) {\n")
	fmt.Fprintf(&tf, "\tstrs := govcStrings(%d)\n\t_ = strs\n\tints := []int{-2, -1, 0, 1, 2, 3, 10, 255}\n\t_ = ints\n\tbools := []bool{false, true}\n\t_ = bools\n", maxLen)
	closeN := 0
	for _, p := range fn.Params {
		switch fc.so.Sort(p.Type()) {
		case "Str":
			fmt.Fprintf(&tf, "\tfor _, %s := range strs {\n", p.Name())
		case "Int":
			fmt.Fprintf(&tf, "\tfor _, %s_ := range ints {\n\t%s := %s(%s_)\n", p.Name(), p.Name(), goTypeName(p.Type(), fn), p.Name())
		case "Bool":
			fmt.Fprintf(&tf, "\tfor _, %s := range bools {\n", p.Name())
		default:
			out["replay_status"] = "no-search: parameter " + p.Name() + " not enumerable"
			return out
		}
		closeN++
	}
	tf.WriteString("\tfunc() {\n")
	for _, rq := range reqs {
		tf.WriteString("\t\t" + rq + "\n")
	}
	call := fmt.Sprintf("%s(%s)", fn.Name(), paramList(fn.Params))
	if nres > 0 {
		fmt.Fprintf(&tf, "\t\t%s := %s\n", strings.Join(resNames, ", "), call)
		for _, rn := range resNames {
			fmt.Fprintf(&tf, "\t\t_ = %s\n", rn)
		}
	} else {
		fmt.Fprintf(&tf, "\t\t%s\n", call)
	}
	for _, c := range checks {
		tf.WriteString("\t\t" + c + "\n")
	}
	tf.WriteString("\t}()\n")
	tf.WriteString(strings.Repeat("\t}\n", closeN))
	tf.WriteString("}\n")
	pkgDir := strings.TrimPrefix(fn.Pkg.Pkg.Path(), snapdMod+"/")
	status, log := runReplayTest(cfg.Repo, pkgDir, tf.String(), cfg.Overlay)
	out["test_source"] = tf.String()
	out["package_dir"] = pkgDir
	out["replay_status"] = "search: " + status
	out["replay_log"] = truncate(log, 4000)
	return out
}

func paramList(ps []*ssa.Parameter) string {
	var names []string
	for _, p := range ps {
		names = append(names, p.Name())
	}
	return strings.Join(names, ", ")
}
