package govc

import (
	"bufio"
	"fmt"
	"os"
	"regexp"
	"strconv"
	"strings"
)

type Clause struct {
	Text  string
	Expr  CExpr
	Where string // file:line
	Label string // optional [label]
}

type LoopSpec struct {
	Invariants []*Clause
	Steps      []*Clause // two-state per-iteration conditions: old(E) is E at the head of the iteration
	Decreases  *Clause
	Frame      bool
	FrameWhere string
}

type Guard struct {
	Kind   string // call | mapdelete | mapstore | store | append
	Target string // callee name or Type.field
	Cond   *Clause
}

type Contract struct {
	Key            string // function key, see funcKey
	Pkg            string // package path the contract file belongs to ("" for lib contracts with qualified keys)
	Props          []string
	Pure           bool
	Opaque         bool // pure but body not revealed (uninterpreted)
	CallPreAssumed bool // requires of callees are assumed (and reported) at the call sites inside this function
	Trusted        bool // contract assumed, body not verified
	NoPanic        bool
	Lemma          bool
	Arith          string // math | checked | wrap
	Requires       []*Clause
	Ensures        []*Clause
	Assumes        []*Clause // assumed at entry, reported as assumptions
	Loops          map[int]*LoopSpec
	Guards         []*Guard
	Assigns        []string
	HasAssigns     bool
	Reads          []string
	HasReads       bool
	Preserves      []string
	HasPreserves   bool
	Decreases      *Clause
	Where          string
	Notes          []string
	MustReach      []string // cover labels
}

// Ghost map declaration: //@ ghost name(Sort,...) Sort
type GhostDecl struct {
	Name string
	Args []string // Go-ish type names: ref int str bool
	Ret  string
}

type FieldGuard struct {
	Field string // Type.field
	Cond  *Clause
	Props []string
	Pkg   string
}

type ContractSet struct {
	ByKey       map[string]*Contract // key: pkgpath + "::" + funcKey, or qualified lib key
	Ghosts      map[string]*GhostDecl
	FieldGuards []*FieldGuard
	Consts      []*ConstCheck
	Order       []*Contract
	Defines     map[string]*Define
}

// Define: //@ define name(p1 T1, p2 T2) = expr — a named specification predicate/function of the
// contract language, expanded at its uses (the body is evaluated in the state of the use).
type Define struct {
	Name   string
	Pkg    string
	Params []CVar
	Body   *Clause
}

func parseDefine(rest, pkg, where string) (*Define, error) {
	i := strings.Index(rest, "(")
	j := strings.Index(rest, ")")
	k := strings.Index(rest, "=")
	if i < 0 || j < i || k < j {
		return nil, fmt.Errorf("%s: malformed define", where)
	}
	d := &Define{Name: strings.TrimSpace(rest[:i]), Pkg: pkg}
	for _, p := range strings.Split(rest[i+1:j], ",") {
		p = strings.TrimSpace(p)
		if p == "" {
			continue
		}
		f := strings.Fields(p)
		if len(f) != 2 {
			return nil, fmt.Errorf("%s: malformed define parameter %q", where, p)
		}
		toks, err := clex(f[1])
		if err != nil {
			return nil, err
		}
		cp := &cparser{toks: toks, src: f[1]}
		var ty CType
		func() {
			defer func() {
				if r := recover(); r != nil {
					err = fmt.Errorf("%s: bad type %q", where, f[1])
				}
			}()
			ty = cp.ctype()
		}()
		if err != nil {
			return nil, err
		}
		d.Params = append(d.Params, CVar{f[0], ty})
	}
	body := strings.TrimSpace(rest[k+1:])
	e, err := ParseCExpr(body)
	if err != nil {
		return nil, fmt.Errorf("%s: %v", where, err)
	}
	d.Body = &Clause{Text: body, Expr: e, Where: where}
	return d, nil
}

// ConstCheck: //@ const name == expr   (package-level constant obligations)
type ConstCheck struct {
	Pkg    string
	Props  []string
	Clause *Clause
	Kind   string // const | callers
}

var clauseKW = map[string]bool{"props": true, "pure": true, "opaque": true, "trusted": true, "nopanic": true, "lemma": true, "arith": true,
	"requires": true, "ensures": true, "assume": true, "loop": true, "guard": true, "assigns": true, "reads": true, "preserves": true, "decreases": true, "note": true, "cover": true, "callpre": true}

var reLabel = regexp.MustCompile(`^\[([A-Za-z0-9_.-]+)\]\s*`)

func NewContractSet() *ContractSet {
	return &ContractSet{ByKey: map[string]*Contract{}, Ghosts: map[string]*GhostDecl{}}
}

// ParseContractFile reads all //@ lines of a file. pkgPath is "" for library files.
func (cs *ContractSet) ParseContractFile(path, pkgPath string) error {
	f, err := os.Open(path)
	if err != nil {
		return err
	}
	defer f.Close()
	sc := bufio.NewScanner(f)
	sc.Buffer(make([]byte, 1<<20), 1<<20)
	type rawLine struct {
		text string
		line int
	}
	var lines []rawLine
	n := 0
	for sc.Scan() {
		n++
		l := strings.TrimSpace(sc.Text())
		if strings.HasPrefix(l, "//@") {
			t := strings.TrimSpace(l[3:])
			// strip trailing line comment " // ..."
			if i := strings.Index(t, " // "); i >= 0 && !strings.Contains(t[:i], "\"") {
				t = strings.TrimSpace(t[:i])
			}
			if t != "" {
				lines = append(lines, rawLine{t, n})
			}
		}
	}
	// join continuation lines
	var joined []rawLine
	for _, l := range lines {
		first := l.text
		if i := strings.IndexAny(first, " \t"); i >= 0 {
			first = first[:i]
		}
		first = strings.TrimSuffix(first, ":")
		if first == "func" || first == "ghost" || first == "fieldguard" || first == "const" || first == "callers" || first == "define" || clauseKW[first] {
			joined = append(joined, l)
		} else if len(joined) > 0 {
			joined[len(joined)-1].text += " " + l.text
		} else {
			return fmt.Errorf("%s:%d: stray continuation line", path, l.line)
		}
	}
	var cur *Contract
	for _, l := range joined {
		where := fmt.Sprintf("%s:%d", path, l.line)
		kw, rest := splitKW(l.text)
		mkClause := func(text string) (*Clause, error) {
			c := &Clause{Where: where}
			if m := reLabel.FindStringSubmatch(text); m != nil {
				c.Label = m[1]
				text = text[len(m[0]):]
			}
			c.Text = text
			e, err := ParseCExpr(text)
			if err != nil {
				return nil, fmt.Errorf("%s: %v", where, err)
			}
			c.Expr = e
			return c, nil
		}
		switch kw {
		case "func":
			key := strings.TrimSpace(rest)
			cur = &Contract{Key: key, Pkg: pkgPath, Loops: map[int]*LoopSpec{}, Where: where}
			full := key
			if pkgPath != "" {
				full = pkgPath + "::" + key
			}
			if _, dup := cs.ByKey[full]; dup {
				return fmt.Errorf("%s: duplicate contract for %s", where, full)
			}
			cs.ByKey[full] = cur
			cs.Order = append(cs.Order, cur)
		case "define":
			d, err := parseDefine(rest, pkgPath, where)
			if err != nil {
				return err
			}
			if cs.Defines == nil {
				cs.Defines = map[string]*Define{}
			}
			if _, dup := cs.Defines[d.Name]; dup {
				return fmt.Errorf("%s: duplicate define %s", where, d.Name)
			}
			cs.Defines[d.Name] = d
			cur = nil
		case "ghost":
			// ghost name(T1,T2) T
			m := regexp.MustCompile(`^(\w+)\(([^)]*)\)\s*(\w+)$`).FindStringSubmatch(strings.TrimSpace(rest))
			if m == nil {
				return fmt.Errorf("%s: bad ghost declaration", where)
			}
			g := &GhostDecl{Name: m[1], Ret: m[3]}
			for _, a := range strings.Split(m[2], ",") {
				if a = strings.TrimSpace(a); a != "" {
					g.Args = append(g.Args, a)
				}
			}
			cs.Ghosts[g.Name] = g
			cur = nil
		case "fieldguard":
			// fieldguard [C05,C09] Type.field: expr
			rest = strings.TrimSpace(rest)
			var props []string
			if strings.HasPrefix(rest, "[") {
				j := strings.Index(rest, "]")
				props = strings.Split(rest[1:j], ",")
				rest = strings.TrimSpace(rest[j+1:])
			}
			i := strings.Index(rest, ":")
			if i < 0 {
				return fmt.Errorf("%s: bad fieldguard", where)
			}
			c, err := mkClause(strings.TrimSpace(rest[i+1:]))
			if err != nil {
				return err
			}
			cs.FieldGuards = append(cs.FieldGuards, &FieldGuard{Field: strings.TrimSpace(rest[:i]), Cond: c, Props: props, Pkg: pkgPath})
			cur = nil
		case "const", "callers":
			rest = strings.TrimSpace(rest)
			var props []string
			if strings.HasPrefix(rest, "[") {
				j := strings.Index(rest, "]")
				props = strings.Split(rest[1:j], ",")
				rest = strings.TrimSpace(rest[j+1:])
			}
			cs.Consts = append(cs.Consts, &ConstCheck{Pkg: pkgPath, Props: props, Clause: &Clause{Text: rest, Where: where}, Kind: kw})
			cur = nil
		default:
			if cur == nil {
				return fmt.Errorf("%s: clause %q outside a func block", where, kw)
			}
			switch kw {
			case "props":
				for _, p := range strings.FieldsFunc(rest, func(r rune) bool { return r == ' ' || r == ',' }) {
					cur.Props = append(cur.Props, p)
				}
			case "callpre":
				if strings.TrimSpace(rest) != "assumed" {
					return fmt.Errorf("%s: expected `callpre assumed`", where)
				}
				cur.CallPreAssumed = true
			case "pure":
				cur.Pure = true
			case "opaque":
				cur.Pure = true
				cur.Opaque = true
			case "trusted":
				cur.Trusted = true
			case "nopanic":
				cur.NoPanic = true
			case "lemma":
				cur.Lemma = true
				cur.NoPanic = true // a lemma proves its ensures only for inputs on which its body does not panic
			case "arith":
				cur.Arith = strings.TrimSpace(rest)
			case "note":
				cur.Notes = append(cur.Notes, rest)
			case "requires", "ensures", "assume", "decreases":
				c, err := mkClause(rest)
				if err != nil {
					return err
				}
				switch kw {
				case "requires":
					cur.Requires = append(cur.Requires, c)
				case "ensures":
					cur.Ensures = append(cur.Ensures, c)
				case "assume":
					cur.Assumes = append(cur.Assumes, c)
				case "decreases":
					cur.Decreases = c
				}
			case "preserves":
				cur.HasPreserves = true
				for _, p := range strings.FieldsFunc(rest, func(r rune) bool { return r == ' ' || r == ',' }) {
					cur.Preserves = append(cur.Preserves, p)
				}
			case "reads":
				cur.HasReads = true
				for _, p := range strings.FieldsFunc(rest, func(r rune) bool { return r == ' ' || r == ',' }) {
					cur.Reads = append(cur.Reads, p)
				}
			case "assigns":
				cur.HasAssigns = true
				for _, p := range strings.FieldsFunc(rest, func(r rune) bool { return r == ' ' || r == ',' }) {
					cur.Assigns = append(cur.Assigns, p)
				}
			case "loop":
				// loop N: invariant E | loop N: decreases E
				i := strings.Index(rest, ":")
				if i < 0 {
					return fmt.Errorf("%s: bad loop clause", where)
				}
				n, err := strconv.Atoi(strings.TrimSpace(rest[:i]))
				if err != nil {
					return fmt.Errorf("%s: bad loop ordinal", where)
				}
				kw2, rest2 := splitKW(strings.TrimSpace(rest[i+1:]))
				if kw2 == "frame" {
					// loop N: frame — objects allocated before the function was entered keep their
					// contents in every heap map the loop modifies (asserted and assumed)
					ls := cur.Loops[n]
					if ls == nil {
						ls = &LoopSpec{}
						cur.Loops[n] = ls
					}
					ls.Frame = true
					ls.FrameWhere = where
					continue
				}
				c, err := mkClause(rest2)
				if err != nil {
					return err
				}
				ls := cur.Loops[n]
				if ls == nil {
					ls = &LoopSpec{}
					cur.Loops[n] = ls
				}
				switch kw2 {
				case "invariant":
					ls.Invariants = append(ls.Invariants, c)
				case "decreases":
					ls.Decreases = c
				case "step":
					ls.Steps = append(ls.Steps, c)
				default:
					return fmt.Errorf("%s: bad loop clause kind %q", where, kw2)
				}
			case "guard":
				// guard call NAME: E  | guard mapdelete T.f: E | guard mapstore T.f: E | guard store T.f: E
				i := strings.Index(rest, ":")
				if i < 0 {
					return fmt.Errorf("%s: bad guard clause", where)
				}
				head := strings.Fields(rest[:i])
				if len(head) != 2 {
					return fmt.Errorf("%s: bad guard head", where)
				}
				c, err := mkClause(strings.TrimSpace(rest[i+1:]))
				if err != nil {
					return err
				}
				cur.Guards = append(cur.Guards, &Guard{Kind: head[0], Target: head[1], Cond: c})
			case "cover":
				cur.MustReach = append(cur.MustReach, rest)
			}
		}
	}
	return nil
}

func splitKW(s string) (kw, rest string) {
	s = strings.TrimSpace(s)
	i := strings.IndexAny(s, " \t")
	if i < 0 {
		return strings.TrimSuffix(s, ":"), ""
	}
	return strings.TrimSuffix(s[:i], ":"), strings.TrimSpace(s[i+1:])
}

func (c *Contract) HasProp(p string) bool {
	for _, x := range c.Props {
		if x == p {
			return true
		}
	}
	return false
}
