package govc

import (
	"fmt"
	"go/types"
	"sort"
	"strings"

	"golang.org/x/tools/go/ssa"
)

type pureDef struct {
	name    string
	reads   []string // heap keys, sorted
	sorts   []string
	retSort string
	opaque  bool
}

func (e *Engine) resetPure(fc *FnCtx) {
	fc.pureDefs = map[*ssa.Function]*pureDef{}
	fc.globalsNoted = map[string]bool{}
	fc.iters = map[*ssa.Range]*rangeIter{}
	fc.strIters = map[*ssa.Range]*Term{}
}

// pureReads: heap keys (with sorts) a function may read, transitively. Syntactic.
func (e *Engine) pureReads(fn *ssa.Function) map[string]string {
	if r, ok := e.readsCache[fn]; ok {
		return r
	}
	res := map[string]string{}
	e.readsCache[fn] = res // cycle guard: recursion sees the partial set, fixpoint below
	so := e.effSo
	if con := e.contractFor(fn); con != nil && con.HasReads {
		// declared read set of an opaque function (assumption T5: it depends on nothing else)
		for _, r := range con.Reads {
			for k, s := range e.resolveReads(con, r) {
				res[k] = s
			}
		}
		return res
	}
	for changed := true; changed; {
		changed = false
		add := func(k, s string) {
			if _, ok := res[k]; !ok {
				res[k] = s
				changed = true
			}
		}
		for _, b := range fn.Blocks {
			for _, in := range b.Instrs {
				switch x := in.(type) {
				case *ssa.FieldAddr:
					pt := types.Unalias(x.X.Type()).Underlying().(*types.Pointer).Elem()
					if rootIsPointerValue(x.X) {
						s := pt.Underlying().(*types.Struct)
						f := s.Field(x.Field)
						if _, isS := isStructType(f.Type()); isS {
							// sub-object: over-approximate by all of its (flattened) fields
							for k, srt := range flatFieldKeySorts(so, f.Type()) {
								add(k, srt)
							}
						} else {
							add(fieldKey(pt, f.Name()), ArraySort("Ref", so.Sort(f.Type())))
						}
					}
				case *ssa.IndexAddr:
					if sl, ok := types.Unalias(x.X.Type()).Underlying().(*types.Slice); ok {
						if structElems(sl.Elem()) {
							for k, srt := range flatFieldKeySorts(so, sl.Elem()) {
								add(k, srt)
							}
						} else {
							es := so.Sort(sl.Elem())
							add("E:"+es, ArraySort("Ref", ArraySort("Int", es)))
						}
					}
				case *ssa.Lookup:
					if mt, ok := types.Unalias(x.X.Type()).Underlying().(*types.Map); ok {
						ks, vs := so.Sort(mt.Key()), so.Sort(mt.Elem())
						add(mapDomKey(ks, vs), ArraySort("Ref", ArraySort(ks, "Bool")))
						add(mapValKey(ks, vs), ArraySort("Ref", ArraySort(ks, vs)))
					}
				case *ssa.UnOp:
					if x.Op.String() == "*" {
						if g, ok := x.X.(*ssa.Global); ok {
							add("G:"+g.String(), so.Sort(g.Type().(*types.Pointer).Elem()))
						} else if rootIsPointerValue(x.X) {
							if _, isFA := x.X.(*ssa.FieldAddr); !isFA {
								if _, isIA := x.X.(*ssa.IndexAddr); !isIA {
									pt := types.Unalias(x.X.Type()).Underlying().(*types.Pointer).Elem()
									if _, isS := isStructType(pt); isS {
										for k, srt := range flatFieldKeySorts(so, pt) {
											add(k, srt)
										}
									} else if at, isA := types.Unalias(pt).Underlying().(*types.Array); isA {
										es := so.Sort(at.Elem())
										add("E:"+es, ArraySort("Ref", ArraySort("Int", es)))
									} else {
										add("C:"+so.Sort(pt), ArraySort("Ref", so.Sort(pt)))
									}
								}
							}
						}
					}
				case *ssa.Call:
					if cal := x.Call.StaticCallee(); cal != nil {
						if b, ok := x.Call.Value.(*ssa.Builtin); ok {
							_ = b
							continue
						}
						name := cal.String()
						if libModels[name] != nil {
							for k, s := range libReads[name] {
								add(k, s)
							}
							continue
						}
						for k, s := range e.pureReads(cal) {
							add(k, s)
						}
					} else if b, ok := x.Call.Value.(*ssa.Builtin); ok && b.Name() == "len" {
						if mt, isMap := types.Unalias(x.Call.Args[0].Type()).Underlying().(*types.Map); isMap {
							add(mapCardKey(so.Sort(mt.Key()), so.Sort(mt.Elem())), ArraySort("Ref", "Int"))
						}
					}
				}
			}
		}
	}
	return res
}

// rootIsPointerValue: the address is derived from a first-class pointer (not a local alloc).
func rootIsPointerValue(v ssa.Value) bool {
	for {
		switch x := v.(type) {
		case *ssa.Alloc:
			return x.Heap
		case *ssa.FieldAddr:
			// field of a pointer value: if X is itself an address of a local struct, follow
			if _, isAlloc := x.X.(*ssa.Alloc); isAlloc {
				v = x.X
				continue
			}
			if fa, isFA := x.X.(*ssa.FieldAddr); isFA {
				v = fa
				continue
			}
			return true
		case *ssa.IndexAddr:
			if _, isSl := types.Unalias(x.X.Type()).Underlying().(*types.Slice); isSl {
				return true
			}
			v = x.X
			continue
		case *ssa.Global:
			return false
		default:
			return true
		}
	}
}

// autoPure: a contract-less snapd function that is loop-free, effect-free and deterministic
// is used through its definition (define-fun) at call sites.
func (e *Engine) autoPure(fn *ssa.Function) bool {
	switch e.autoPureCache[fn] {
	case 1:
		return true
	case 2:
		return false
	}
	e.autoPureCache[fn] = 2 // recursion => not auto-pure
	ok := e.autoPureCheck(fn)
	if ok {
		e.autoPureCache[fn] = 1
	}
	return ok
}

func (e *Engine) autoPureCheck(fn *ssa.Function) bool {
	if fn.Blocks == nil || fn.Pkg == nil || !strings.HasPrefix(fn.Pkg.Pkg.Path(), snapdMod) {
		return false
	}
	if len(fn.Blocks) > 40 || len(fn.FreeVars) > 0 {
		return false
	}
	if fn.Signature.Results().Len() != 1 {
		return false
	}
	for _, b := range fn.Blocks {
		for _, s := range b.Succs {
			if s.Dominates(b) {
				return false
			}
		}
		for _, in := range b.Instrs {
			switch x := in.(type) {
			case *ssa.Alloc:
				if x.Heap {
					return false
				}
			case *ssa.MakeMap, *ssa.MakeSlice, *ssa.MakeClosure, *ssa.MakeChan, *ssa.Go, *ssa.Select, *ssa.Send, *ssa.Range, *ssa.Next, *ssa.MapUpdate, *ssa.Panic:
				return false
			case *ssa.Defer:
				return false
			case *ssa.Store:
				if rootIsPointerValue(x.Addr) {
					return false
				}
				if _, isG := x.Addr.(*ssa.Global); isG {
					return false
				}
			case *ssa.UnOp:
				if x.Op.String() == "<-" {
					return false
				}
			case *ssa.Call:
				if bi, ok := x.Call.Value.(*ssa.Builtin); ok {
					switch bi.Name() {
					case "len", "cap", "min", "max", "ssa:wrapnilchk", "ssa:deferstack":
						continue
					}
					return false
				}
				cal := x.Call.StaticCallee()
				if cal == nil {
					return false
				}
				if _, isClo := x.Call.Value.(*ssa.MakeClosure); isClo {
					return false
				}
				name := cal.String()
				if libModels[name] != nil {
					if libImpure[name] {
						return false
					}
					continue
				}
				if con := e.contractFor(cal); con != nil {
					if con.Pure {
						continue
					}
					return false
				}
				if !e.autoPure(cal) {
					return false
				}
			}
		}
	}
	return true
}

// pureApp applies a pure function to arguments in the given state.
func (e *Engine) pureApp(fc *FnCtx, fn *ssa.Function, args []*Term, st *State) *Term {
	def := e.ensurePureDef(fc, fn)
	var full []*Term
	for i, k := range def.reads {
		full = append(full, fc.heapGet(st, k, def.sorts[i]))
	}
	full = append(full, args...)
	if len(full) == 0 {
		return fc.tb.Const(def.name, def.retSort)
	}
	return fc.tb.App(def.name, def.retSort, full...)
}

func (e *Engine) ensurePureDef(fc *FnCtx, fn *ssa.Function) *pureDef {
	if d, ok := fc.pureDefs[fn]; ok {
		return d
	}
	tb := fc.tb
	con := e.contractFor(fn)
	reads := e.pureReads(fn)
	d := &pureDef{name: "pf_" + mangle(e.shortFn(fn))}
	var ks []string
	for k := range reads {
		if e.constGlobalKeyFor(fc, k) {
			continue
		}
		ks = append(ks, k)
	}
	sort.Strings(ks)
	for _, k := range ks {
		d.reads = append(d.reads, k)
		d.sorts = append(d.sorts, reads[k])
		fc.regKey(k, reads[k])
	}
	rs := fn.Signature.Results()
	if rs.Len() != 1 {
		fc.unsup("pure function %s must have exactly one result", fn.String())
	}
	d.retSort = fc.so.Sort(rs.At(0).Type())
	fc.pureDefs[fn] = d
	var argSorts []string
	argSorts = append(argSorts, d.sorts...)
	for _, p := range fn.Params {
		argSorts = append(argSorts, fc.so.Sort(p.Type()))
	}
	if (con != nil && con.Opaque) || fn.Blocks == nil {
		d.opaque = true
		tb.DeclFun(d.name, argSorts, d.retSort)
		fc.note("opaque function " + e.shortFn(fn) + " is an uninterpreted function of its arguments and the heap fields it reads")
		return d
	}
	// translate the body in pure mode
	sub := &FnCtx{eng: e, fn: fn, con: con, tb: tb, so: fc.so, pureMode: true, keySort: fc.keySort, keys: fc.keys,
		regs: map[ssa.Value]Val{}, pureDefs: fc.pureDefs, globalsNoted: fc.globalsNoted, iters: map[*ssa.Range]*rangeIter{}, strIters: map[*ssa.Range]*Term{},
		calleesUsed: map[string]bool{}, cellNames: map[string][]*ssa.Alloc{}, arith: "math", notes: fc.notes, covers: map[string]*Term{}}
	sub.findLoops()
	if len(sub.loopList) > 0 {
		fc.unsup("pure function %s has a loop (declare it opaque)", fn.String())
	}
	st := &State{reach: tb.True(), cells: map[*ssa.Alloc]*Term{}, heap: map[string]*Term{}}
	var params []string
	for i, k := range d.reads {
		c := tb.Const(fmt.Sprintf("ph!%s!%s", d.name, k), d.sorts[i])
		st.heap[k] = c
		params = append(params, fmt.Sprintf("(%s %s)", c.Op, c.Sort))
	}
	for _, p := range fn.Params {
		c := tb.Const(fmt.Sprintf("pp!%s!%s", d.name, p.Name()), fc.so.Sort(p.Type()))
		sub.regs[p] = c
		params = append(params, fmt.Sprintf("(%s %s)", c.Op, c.Sort))
	}
	sub.entry = st
	func() {
		defer func() {
			if r := recover(); r != nil {
				if u, ok := r.(unsupportedErr); ok {
					panic(unsupportedErr{"in pure function " + e.shortFn(fn) + ": " + u.msg})
				}
				panic(r)
			}
		}()
		sub.execPure(st)
	}()
	fc.keys = sub.keys
	if sub.newKey {
		fc.newKey = true
	}
	for k := range sub.exit.heap {
		found := false
		for _, r := range d.reads {
			if r == k {
				found = true
			}
		}
		if !found && !e.constGlobalKeyFor(fc, k) && k != "alloc" {
			fc.unsup("pure function %s reads heap key %s not in its syntactic read set", fn.String(), k)
		}
	}
	body := sub.exitVals[0].(*Term)
	uses := map[string]bool{}
	UsedSyms(body, uses)
	var ul []string
	for u := range uses {
		ul = append(ul, u)
	}
	sort.Strings(ul)
	kw := "define-fun"
	if uses[d.name] || e.isRecursive(fn) {
		kw = "define-fun-rec"
	}
	text := fmt.Sprintf("(%s %s (%s) %s %s)", kw, d.name, strings.Join(params, " "), d.retSort, tb.ShowLet(body))
	tb.AddDef(d.name, text, ul)
	return d
}

func (e *Engine) constGlobalKeyFor(fc *FnCtx, k string) bool {
	return e.constGlobalKey(k)
}

func (e *Engine) isRecursive(fn *ssa.Function) bool {
	seen := map[*ssa.Function]bool{}
	var walk func(f *ssa.Function) bool
	walk = func(f *ssa.Function) bool {
		if seen[f] {
			return false
		}
		seen[f] = true
		for _, b := range f.Blocks {
			for _, in := range b.Instrs {
				if c, ok := in.(*ssa.Call); ok {
					if cal := c.Call.StaticCallee(); cal != nil {
						if cal == fn {
							return true
						}
						if cal.Pkg == fn.Pkg && walk(cal) {
							return true
						}
					}
				}
			}
		}
		return false
	}
	return walk(fn)
}

// execPure runs the body of a loop-free function and merges the return value.
func (fc *FnCtx) execPure(st *State) {
	tb := fc.tb
	order := fc.topoOrder()
	out := map[*ssa.BasicBlock]*State{}
	edge := map[[2]int]*Term{}
	fc.edges = edge
	for _, b := range order {
		var in *State
		if b.Index == 0 {
			in = st
		} else {
			var preds []*State
			for _, p := range b.Preds {
				ps := out[p]
				if ps == nil {
					continue
				}
				s2 := ps.clone()
				s2.reach = edge[[2]int{p.Index, b.Index}]
				preds = append(preds, s2)
			}
			if len(preds) == 0 {
				continue
			}
			in = fc.merge(preds, "")
		}
		fc.curBlock = b
		res := fc.execBlock(b, in)
		if res == nil {
			continue
		}
		out[b] = res.st
		for i, s := range b.Succs {
			var c *Term
			switch {
			case res.cond == nil:
				c = res.st.reach
			case i == 0:
				c = tb.And(res.st.reach, res.cond)
			default:
				c = tb.And(res.st.reach, tb.Not(res.cond))
			}
			k := [2]int{b.Index, s.Index}
			if prev, ok := edge[k]; ok {
				c = tb.Or(prev, c)
			}
			edge[k] = c
		}
	}
	if len(fc.retStates) == 0 {
		fc.unsup("pure function never returns")
	}
	fc.finish()
}

// ShowLet renders a term with shared sub-terms bound by let (for define-fun bodies).
func (tb *TB) ShowLet(t *Term) string {
	count := map[*Term]int{}
	var order []*Term
	var visit func(t *Term)
	visit = func(t *Term) {
		count[t]++
		if count[t] > 1 {
			return
		}
		for _, a := range t.Args {
			visit(a)
		}
		order = append(order, t)
	}
	visit(t)
	named := map[*Term]string{}
	var sb strings.Builder
	closeN := 0
	sort.Slice(order, func(i, j int) bool { return order[i].ID < order[j].ID })
	for _, x := range order {
		if x == t || x.Bound || x.Kind != kApp || count[x] < 2 || termSize(x, 6) < 6 {
			continue
		}
		var b strings.Builder
		tb.write(&b, x, named)
		name := fmt.Sprintf("l!%d", x.ID)
		fmt.Fprintf(&sb, "(let ((%s %s)) ", name, b.String())
		named[x] = name
		closeN++
	}
	tb.write(&sb, t, named)
	sb.WriteString(strings.Repeat(")", closeN))
	return sb.String()
}
