package govc

import (
	"go/types"
	"sort"
	"strings"

	"golang.org/x/tools/go/ssa"
)

// effSet is the set of heap keys a function may write (transitively), or "all".
type effSet struct {
	all    bool
	keys   map[string]bool
	fresh  map[string]bool // keys written only inside objects allocated by the function itself
	why    string
	except map[string]bool // with all: keys known not to be written (from preserves clauses)
}

// addAllExcept: the function may write everything except the given keys.
func (a *effSet) addAllExcept(except map[string]bool, why string) {
	if a.all {
		// intersect
		if a.except != nil {
			for k := range a.except {
				if !except[k] {
					delete(a.except, k)
				}
			}
		}
		return
	}
	a.all = true
	a.why = why
	a.except = map[string]bool{}
	for k := range except {
		if !a.keys[k] {
			a.except[k] = true
		}
	}
}

func (a *effSet) add(b *effSet) {
	if b.all {
		a.addAllExcept(b.except, b.why)
		return
	}
	for k := range b.keys {
		a.keys[k] = true
		delete(a.except, k)
	}
	for k := range b.fresh {
		if a.fresh == nil {
			a.fresh = map[string]bool{}
		}
		a.fresh[k] = true
	}
}

func (a *effSet) addFresh(k string) {
	if a.fresh == nil {
		a.fresh = map[string]bool{}
	}
	a.fresh[k] = true
}

// heap-pure standard library packages: functions in them only write memory reachable
// from their arguments; calls are handled by type-reachability of the arguments.
func stdlibPkg(path string) bool {
	return !strings.Contains(path, ".") || strings.HasPrefix(path, "golang.org/x/") || strings.HasPrefix(path, "vendor/")
}

func (e *Engine) effects(fn *ssa.Function) *effSet {
	if r, ok := e.effCache[fn]; ok {
		return r
	}
	res := &effSet{keys: map[string]bool{}}
	e.effCache[fn] = res
	if e.effBusy[fn] {
		return res
	}
	e.effBusy[fn] = true
	defer delete(e.effBusy, fn)
	// iterate to a fixpoint because of recursion through the cache
	for iter := 0; iter < 4; iter++ {
		before := len(res.keys) + len(res.fresh)
		wasAll := res.all
		e.effectsOnce(fn, res)
		if res.all == wasAll && len(res.keys)+len(res.fresh) == before {
			break
		}
	}
	return res
}

// frameConfirmed: does the write-effect analysis of fn's BODY (callees by their contracts/effects) stay
// within the keys of its own `assigns` clause? Used to tell proved frames from assumed ones in the evidence.
func (e *Engine) frameConfirmed(con *Contract, fn *ssa.Function) (bool, string) {
	if fn == nil || fn.Blocks == nil {
		return false, "no body"
	}
	res := &effSet{keys: map[string]bool{}}
	// this question must not disturb the effect analysis the VCs are generated from: only fn's own contract
	// is set aside (a recursive call inside the body is still taken by its contract), and whatever the
	// walk memoises is dropped again
	saved := make(map[*ssa.Function]*effSet, len(e.effCache))
	for k, v := range e.effCache {
		saved[k] = v
	}
	e.skipOwnContract = fn
	e.effectsOnce(fn, res)
	e.skipOwnContract = nil
	e.effCache = saved
	if res.all {
		return false, "the body has calls with unknown effects (" + res.why + ")"
	}
	allowed := map[string]bool{}
	for _, a := range con.Assigns {
		for _, k := range e.resolveAssign(con, a, nil) {
			allowed[k] = true
		}
	}
	var extra []string
	for k := range res.keys {
		if !allowed[k] && !allowed["*"] {
			extra = append(extra, k)
		}
	}
	if len(extra) > 0 {
		sort.Strings(extra)
		if len(extra) > 4 {
			extra = append(extra[:4], "...")
		}
		return false, "the body may write " + strings.Join(extra, " ")
	}
	return true, ""
}

var frameCache = map[*ssa.Function][2]string{}

func (e *Engine) frameConfirmedCached(con *Contract, fn *ssa.Function) (bool, string) {
	if r, ok := frameCache[fn]; ok {
		return r[0] == "ok", r[1]
	}
	ok, why := e.frameConfirmed(con, fn)
	v := "no"
	if ok {
		v = "ok"
	}
	frameCache[fn] = [2]string{v, why}
	return ok, why
}

func (e *Engine) effectsOnce(fn *ssa.Function, res *effSet) {
	so := e.effSo
	if e.skipOwnContract == fn {
		e.skipOwnContract = nil
		goto body
	}
	if con := e.contractFor(fn); con != nil && con.HasPreserves {
		res.addAllExcept(e.preservedKeys(con), "preserves clause of "+con.Key)
		return
	}
	if con := e.contractFor(fn); con != nil && con.HasAssigns {
		for _, a := range con.Assigns {
			for _, k := range e.resolveAssign(con, a, nil) {
				if k == "*" {
					res.setAll()
					res.why = "assigns *"
				} else {
					res.keys[k] = true
				}
			}
		}
		return
	}
body:
	if fn.Blocks == nil {
		name := fn.String()
		if fn.Pkg != nil {
			switch fn.Pkg.Pkg.Path() {
			case "internal/bytealg", "math", "math/bits", "strings", "unicode/utf8", "internal/cpu", "runtime", "time", "internal/abi", "sync/atomic", "internal/runtime/atomic":
				return
			}
		}
		res.setAll()
		res.why = "no body: " + name
		return
	}
	if fn.Pkg != nil && stdlibPkg(fn.Pkg.Pkg.Path()) {
		// standard library: writes only through its arguments
		e.stdlibEffects(fn, res)
		return
	}
	for _, b := range fn.Blocks {
		for _, in := range b.Instrs {
			switch x := in.(type) {
			case *ssa.Store:
				e.storeEffect(x.Addr, res)
			case *ssa.MapUpdate:
				mt := types.Unalias(x.Map.Type()).Underlying().(*types.Map)
				ks, vs := so.Sort(mt.Key()), so.Sort(mt.Elem())
				if mm, isNew := x.Map.(*ssa.MakeMap); isNew && e.localOnly(mm) {
					// update of a map the function created itself and that never leaves it
				} else if isNew {
					// update of a map the function created itself
					res.addFresh(mapDomKey(ks, vs))
					res.addFresh(mapValKey(ks, vs))
					res.addFresh(mapCardKey(ks, vs))
				} else {
					res.keys[mapDomKey(ks, vs)] = true
					res.keys[mapValKey(ks, vs)] = true
					res.keys[mapCardKey(ks, vs)] = true
				}
			case *ssa.Call:
				e.callEffect(&x.Call, res)
			case *ssa.Defer:
				e.callEffect(&x.Call, res)
			case *ssa.Go:
				e.callEffect(&x.Call, res)
			case *ssa.Send:
				// channels are not modelled
			}
		}
	}
}

func (e *Engine) storeEffect(addr ssa.Value, res *effSet) {
	so := e.effSo
	v := addr
	for {
		switch x := v.(type) {
		case *ssa.Alloc:
			if !x.Heap {
				return
			}
			// fresh object: invisible to the caller unless it escapes; over-approximate by type
			et := x.Type().(*types.Pointer).Elem()
			if _, isS := isStructType(et); !isS && !e.localOnly(x) {
				res.addFresh(cellKeyOf(so, et))
			}
			return
		case *ssa.FieldAddr:
			pt := types.Unalias(x.X.Type()).Underlying().(*types.Pointer).Elem()
			s := pt.Underlying().(*types.Struct)
			// struct-typed fields of heap objects are flattened sub-objects: the key is that of the
			// outermost selected field; what the chain is rooted in decides whether it is visible
			var root ssa.Value = x.X
			for {
				if inner, ok := root.(*ssa.FieldAddr); ok {
					root = inner.X
					continue
				}
				break
			}
			var keys []string
			var collect func(owner types.Type, st *types.Struct, i int)
			collect = func(owner types.Type, st *types.Struct, i int) {
				f := st.Field(i)
				if fs, isS := isStructType(f.Type()); isS {
					for j := 0; j < fs.NumFields(); j++ {
						collect(f.Type(), fs, j)
					}
					return
				}
				keys = append(keys, fieldKey(owner, f.Name()))
			}
			collect(pt, s, x.Field)
			switch r := root.(type) {
			case *ssa.IndexAddr:
				if sl, isSl := types.Unalias(r.X.Type()).Underlying().(*types.Slice); isSl && structElems(sl.Elem()) {
					// field of a flattened element object
					for _, k := range keys {
						if e.freshOrigin(r.X) {
							res.addFresh(k)
						} else {
							res.keys[k] = true
						}
					}
					return
				}
				v = r
				continue
			case *ssa.Alloc:
				if r.Heap && !e.localOnly(r) {
					for _, k := range keys {
						res.addFresh(k)
					}
				}
				return
			}
			for _, k := range keys {
				res.keys[k] = true
			}
			return
		case *ssa.IndexAddr:
			switch t := types.Unalias(x.X.Type()).Underlying().(type) {
			case *types.Slice:
				ks := []string{"E:" + so.Sort(t.Elem())}
				if structElems(t.Elem()) {
					ks = flatFieldKeys(t.Elem())
				}
				for _, k := range ks {
					if e.freshOrigin(x.X) {
						res.addFresh(k)
					} else {
						res.keys[k] = true
					}
				}
				return
			case *types.Pointer:
				v = x.X
				continue
			}
			return
		case *ssa.Global:
			res.keys["G:"+x.String()] = true
			return
		default:
			// store through a first-class pointer
			pt, ok := types.Unalias(v.Type()).Underlying().(*types.Pointer)
			if !ok {
				return
			}
			if _, isS := isStructType(pt.Elem()); isS {
				for _, k := range flatFieldKeys(pt.Elem()) {
					res.keys[k] = true
				}
			} else {
				res.keys[cellKeyOf(so, pt.Elem())] = true
			}
			return
		}
	}
}

func cellKeyOf(so *Sorts, t types.Type) string {
	if at, ok := types.Unalias(t).Underlying().(*types.Array); ok {
		return "E:" + so.Sort(at.Elem())
	}
	return "C:" + so.Sort(t)
}

func (e *Engine) callEffect(c *ssa.CallCommon, res *effSet) {
	so := e.effSo
	if c.IsInvoke() {
		key := "(" + typeName(c.Value.Type()) + ")." + c.Method.Name()
		con, _ := e.ifaceContract(c.Value.Type(), c.Method)
		if con != nil && con.Pure && !con.HasAssigns {
			return
		}
		if con != nil && con.HasAssigns {
			for _, a := range con.Assigns {
				for _, k := range e.resolveAssign(con, a, nil) {
					if k == "*" {
						res.setAll()
						res.why = "assigns * of " + key
					} else {
						res.keys[k] = true
					}
				}
			}
			return
		}
		res.setAll()
		res.why = "dynamic call " + key
		return
	}
	switch v := c.Value.(type) {
	case *ssa.Builtin:
		switch v.Name() {
		case "append", "copy":
			if sl, ok := types.Unalias(c.Args[0].Type()).Underlying().(*types.Slice); ok {
				ks := []string{"E:" + so.Sort(sl.Elem())}
				if structElems(sl.Elem()) {
					ks = flatFieldKeys(sl.Elem())
				}
				for _, k := range ks {
					if e.freshOrigin(c.Args[0]) {
						res.addFresh(k)
					} else {
						res.keys[k] = true
					}
				}
			}
		case "delete":
			mt := types.Unalias(c.Args[0].Type()).Underlying().(*types.Map)
			res.keys[mapDomKey(so.Sort(mt.Key()), so.Sort(mt.Elem()))] = true
			res.keys[mapCardKey(so.Sort(mt.Key()), so.Sort(mt.Elem()))] = true
		}
		return
	case *ssa.Function:
		name := v.String()
		if v.Origin() != nil {
			name = v.Origin().String()
		}
		if libModels[name] != nil {
			if strings.HasPrefix(name, "sort.") && len(c.Args) > 0 {
				// writes the element storage of the slice it sorts
				t := c.Args[0].Type()
				if mi, ok := c.Args[0].(*ssa.MakeInterface); ok {
					t = mi.X.Type()
				}
				if sl, ok := types.Unalias(t).Underlying().(*types.Slice); ok {
					ks := []string{"E:" + so.Sort(sl.Elem())}
					if structElems(sl.Elem()) {
						ks = flatFieldKeys(sl.Elem())
					}
					for _, k := range ks {
						res.keys[k] = true
					}
				} else {
					res.setAll()
				}
				return
			}
			for _, k := range libWrites[name] {
				res.keys[k] = true
			}
			return
		}
		res.add(e.effects(v))
		return
	case *ssa.MakeClosure:
		res.add(e.effects(v.Fn.(*ssa.Function)))
		return
	}
	// call through a local function variable that denotes one func literal
	if u, ok := c.Value.(*ssa.UnOp); ok {
		var mc *ssa.MakeClosure
		switch x := u.X.(type) {
		case *ssa.Alloc:
			mc = uniqueClosureStore(x)
		case *ssa.FreeVar:
			mc = closureOfFreeVar(x)
		}
		if mc != nil {
			res.add(e.effects(mc.Fn.(*ssa.Function)))
			return
		}
	}
	// call through a package-level func variable with a `var:NAME` contract
	if u, ok := c.Value.(*ssa.UnOp); ok {
		if g, ok := u.X.(*ssa.Global); ok && g.Pkg != nil {
			if con := e.cs.ByKey[g.Pkg.Pkg.Path()+"::var:"+g.Name()]; con != nil && (con.HasAssigns || con.Pure) {
				for _, a := range con.Assigns {
					for _, k := range e.resolveAssign(con, a, nil) {
						if k == "*" {
							res.setAll()
							res.why = "assigns * of var:" + g.Name()
						} else {
							res.keys[k] = true
						}
					}
				}
				return
			}
		}
	}
	// func value: named func type with a contract?
	if n, ok := types.Unalias(c.Value.Type()).(*types.Named); ok {
		con, _ := e.ifaceContract(n, nil)
		if con != nil && con.Pure && !con.HasAssigns {
			return
		}
		if con != nil && con.HasAssigns {
			for _, a := range con.Assigns {
				for _, k := range e.resolveAssign(con, a, nil) {
					if k == "*" {
						res.setAll()
					} else {
						res.keys[k] = true
					}
				}
			}
			return
		}
	}
	res.setAll()
	res.why = "call of function value"
}

// stdlibEffects: a standard-library function may write whatever is reachable (by type) from its
// pointer-like arguments. Interface-typed arguments make it "all" unless the function is listed pure.
func (e *Engine) stdlibEffects(fn *ssa.Function, res *effSet) {
	name := fn.String()
	if stdlibHeapPure(name) {
		return
	}
	seen := map[types.Type]bool{}
	var reach func(t types.Type, deref bool)
	so := e.effSo
	reach = func(t types.Type, deref bool) {
		t = types.Unalias(t)
		if seen[t] {
			return
		}
		seen[t] = true
		if isTimeTime(t) {
			return
		}
		switch u := t.Underlying().(type) {
		case *types.Pointer:
			if s, isS := isStructType(u.Elem()); isS {
				for _, k := range flatFieldKeys(u.Elem()) {
					res.keys[k] = true
				}
				for i := 0; i < s.NumFields(); i++ {
					reach(s.Field(i).Type(), true)
				}
			} else {
				res.keys[cellKeyOf(so, u.Elem())] = true
				reach(u.Elem(), true)
			}
		case *types.Slice:
			if structElems(u.Elem()) {
				for _, k := range flatFieldKeys(u.Elem()) {
					res.keys[k] = true
				}
			} else {
				res.keys["E:"+so.Sort(u.Elem())] = true
			}
			reach(u.Elem(), true)
		case *types.Map:
			ks, vs := so.Sort(u.Key()), so.Sort(u.Elem())
			res.keys[mapDomKey(ks, vs)] = true
			res.keys[mapValKey(ks, vs)] = true
			res.keys[mapCardKey(ks, vs)] = true
			reach(u.Elem(), true)
		case *types.Struct:
			for i := 0; i < u.NumFields(); i++ {
				reach(u.Field(i).Type(), true)
			}
		case *types.Interface, *types.Signature:
			res.setAll()
			res.why = "stdlib call " + name + " with interface/func argument"
		case *types.Array:
			reach(u.Elem(), true)
		}
	}
	sig := fn.Signature
	if sig.Recv() != nil {
		reach(sig.Recv().Type(), false)
	}
	for i := 0; i < sig.Params().Len(); i++ {
		reach(sig.Params().At(i).Type(), false)
	}
}

// stdlibHeapPure: standard-library functions assumed not to write memory visible to snapd
// (beyond freshly allocated results). Formatting functions call String()/Error() methods of
// their arguments; those are assumed side-effect free (assumption T-fmt).
func stdlibHeapPure(name string) bool {
	for _, p := range []string{"fmt.Errorf", "fmt.Sprintf", "fmt.Sprint", "fmt.Sprintln", "errors.New", "errors.Is", "errors.As", "errors.Unwrap",
		"strings.", "strconv.", "unicode.", "unicode/utf8.", "path.", "path/filepath.Join", "path/filepath.Base", "path/filepath.Dir", "path/filepath.Clean",
		"path/filepath.Ext", "path/filepath.IsAbs", "path/filepath.Rel", "path/filepath.Split", "path/filepath.Match", "(time.", "time.", "math.", "math/bits.", "bytes.Equal", "bytes.Index", "bytes.HasPrefix",
		"bytes.HasSuffix", "bytes.Contains", "bytes.LastIndex", "bytes.TrimSpace", "bytes.Compare", "reflect.DeepEqual", "sort.SearchInts", "sort.SearchStrings", "sort.Search",
		"os.Getenv", "os.Getuid", "os.Geteuid", "os.Getpid", "os.IsNotExist", "os.IsExist", "os.IsPermission", "regexp.MustCompile", "(*regexp.Regexp).", "encoding/json.Marshal", "encoding/base64.", "(*encoding/base64.", "crypto/", "hash/", "(*sync.Mutex).", "(*sync.RWMutex).", "(*sync.Cond).", "(*sync.WaitGroup).", "(*sync.Once).", "sync/atomic.", "(*sync/atomic.",
		"unicode/utf8.Valid", "os/user.", "os.Stat", "os.Lstat", "os.Readlink", "os.ReadFile", "io/ioutil.ReadFile", "os.Remove", "os.RemoveAll", "os.Rename", "os.Symlink", "os.MkdirAll", "os.Mkdir", "os.Chmod", "os.Chown",
		"path/filepath.Glob", "path/filepath.EvalSymlinks", "io.MultiWriter", "io.TeeReader", "syscall.", "log.", "(*log.", "net/url.", "net/http.Error"} {
		if strings.HasPrefix(name, p) {
			return true
		}
	}
	return false
}
