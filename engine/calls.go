package govc

import (
	"fmt"
	"go/types"
	"sort"
	"strings"

	"golang.org/x/tools/go/ssa"
)

func (fc *FnCtx) call(instr ssa.Instruction, c *ssa.CallCommon, st *State) Val {
	var args []Val
	for _, a := range c.Args {
		args = append(args, fc.val(a, st))
	}
	return fc.callWith(instr, c, args, st)
}

func (fc *FnCtx) callWith(instr ssa.Instruction, c *ssa.CallCommon, args []Val, st *State) Val {
	fc.escapedRoots = nil
	defer func() {
		// interior pointers handed to the callee: their roots may have been written
		for _, k := range fc.escapedRoots {
			if srt, ok := fc.keySort[k]; ok {
				st.heap[k] = fc.tb.Fresh("esc!"+k, srt)
			}
		}
		fc.escapedRoots = nil
	}()
	// element pointers handed to the callee (or leaked into the heap earlier): the element storage of
	// that sort may be written through them
	if len(fc.eptr) > 0 {
		for _, es := range sortedStrs(fc.eptrLeaked) {
			fc.escapedRoots = append(fc.escapedRoots, "E:"+es)
		}
		for _, a := range c.Args {
			if p, ok := types.Unalias(a.Type()).Underlying().(*types.Pointer); ok {
				if _, ok := fc.eptr[fc.so.Sort(p.Elem())]; ok {
					fc.escapedRoots = append(fc.escapedRoots, "E:"+fc.so.Sort(p.Elem()))
				}
			}
		}
	}
	fc.callGuards(c, args, st)
	fc.noteCalled(c, st)
	if c.IsInvoke() {
		recv := fc.term(fc.val(c.Value, st))
		key := "(" + typeName(c.Value.Type()) + ")." + c.Method.Name()
		all := append([]Val{recv}, args...)
		sig := c.Method.Type().(*types.Signature)
		if con, _ := fc.eng.ifaceContract(c.Value.Type(), c.Method); con != nil {
			if con.Pure && len(con.Requires) == 0 && len(con.Ensures) == 0 {
				return fc.ufApp(key, sig, fc.termArgs(all))
			}
			return fc.callByContract(instr, key, con, nil, sig, all, st, c.Value.Type())
		}
		fc.termArgs(all)
		fc.note("dynamic call " + key + " without contract: full havoc")
		fc.havocAll(st)
		fc.growAlloc(st)
		return fc.freshResults(sig.Results(), st, "dyn")
	}
	switch callee := c.Value.(type) {
	case *ssa.Builtin:
		return fc.builtin(callee.Name(), c, args, st)
	case *ssa.Function:
		return fc.callStatic(instr, callee, args, st)
	case *ssa.MakeClosure:
		cl := fc.val(callee, st).(*Closure)
		return fc.callClosure(instr, cl, args, st)
	}
	// dynamic function value
	v := fc.val(c.Value, st)
	switch fv := v.(type) {
	case *Closure:
		return fc.callClosure(instr, fv, args, st)
	case *FuncRef:
		return fc.callStatic(instr, fv.Fn, args, st)
	}
	sig := types.Unalias(c.Value.Type()).Underlying().(*types.Signature)
	// func-typed contract (named func types only)
	if n, ok := types.Unalias(c.Value.Type()).(*types.Named); ok {
		if con, key := fc.eng.ifaceContract(n, nil); con != nil {
			all := append([]Val{v}, args...)
			return fc.callByContract(instr, key, con, nil, sig, all, st, n)
		}
	}
	if con, key := fc.dynCallContract(instr); con != nil {
		all := append([]Val{v}, args...)
		if con.Pure && len(con.Requires) == 0 && len(con.Ensures) == 0 {
			return fc.ufApp(key, sig, fc.termArgs(all))
		}
		return fc.callByContract(instr, key, con, nil, sig, all, st, c.Value.Type())
	}
	fc.termArgs(args)
	fc.note("call of function value without contract in " + fc.fnName() + ": full havoc")
	fc.havocAll(st)
	fc.growAlloc(st)
	return fc.freshResults(sig.Results(), st, "dyn")
}

func (fc *FnCtx) termArgs(args []Val) []*Term {
	var out []*Term
	for _, a := range args {
		out = append(out, fc.term(a))
	}
	return out
}

func (fc *FnCtx) callClosure(instr ssa.Instruction, cl *Closure, args []Val, st *State) Val {
	// closures: contract under the closure's own name, else havoc
	con := fc.eng.contractFor(cl.Fn)
	if con != nil && !con.Pure {
		fc.curClosure = cl
		defer func() { fc.curClosure = nil }()
		return fc.callByContract(instr, fc.eng.shortFn(cl.Fn), con, cl.Fn, cl.Fn.Signature, args, st, nil)
	}
	fc.termArgs(args)
	eff := fc.eng.effects(cl.Fn)
	fc.havocEffects(st, eff, cl.Fn.String())
	if fc.mayAllocate(eff, cl.Fn.Signature) {
		fc.growAlloc(st)
	}
	return fc.freshResults(cl.Fn.Signature.Results(), st, "clo")
}

func (fc *FnCtx) callStatic(instr ssa.Instruction, fn *ssa.Function, args []Val, st *State) Val {
	name := fn.String()
	if fn.Origin() != nil {
		name = fn.Origin().String()
	}
	fc.calleesUsed[name] = true
	if m := libModels[name]; m != nil {
		if cc, ok := instr.(*ssa.Call); ok {
			fc.curCall = &cc.Call
		} else if d, ok := instr.(*ssa.Defer); ok {
			fc.curCall = &d.Call
		}
		defer func() { fc.curCall = nil }()
		return m(fc, st, args)
	}
	con := fc.eng.contractFor(fn)
	sig := fn.Signature
	if con != nil {
		if con.Pure && !fc.eng.isSelf(fc, fn) {
			if con.Opaque && !fc.pureMode && len(con.Requires)+len(con.Ensures) > 0 && fn.Blocks != nil {
				// an opaque function with a verified contract: at a call in code its requires are
				// obligations and its ensures (proved of its body) are known of the application
				targs := fc.termArgs(args)
				env := fc.calleeEnv(con, fn, sig, targs, st, st, nil)
				site := fc.siteOrdinal(instr, fc.eng.shortFn(fn))
				for j, c := range con.Requires {
					fc.oblige(st, "call-pre", fmt.Sprintf("%s#call-pre#%s.%d@%d", fc.fnName(), fc.eng.shortFn(fn), j, site), fc.transBool(env, c), fc.eng.pos(instr.Pos()), "requires of "+fc.eng.shortFn(fn)+": "+c.Text)
				}
				res := fc.eng.pureApp(fc, fn, targs, st)
				env.st = st
				env.setResults(res, sig)
				for _, c := range con.Ensures {
					fc.assume(st, fc.transBool(env, c))
				}
				return res
			}
			return fc.eng.pureApp(fc, fn, fc.termArgs(args), st)
		}
		if fc.pureMode && fc.eng.autoPure(fn) {
			return fc.eng.pureApp(fc, fn, fc.termArgs(args), st)
		}
		return fc.callByContract(instr, fc.eng.shortFn(fn), con, fn, sig, args, st, nil)
	}
	if fc.eng.autoPure(fn) {
		return fc.eng.pureApp(fc, fn, fc.termArgs(args), st)
	}
	if fc.pureMode {
		fc.unsup("pure function calls impure function %s", name)
	}
	fc.termArgs(args)
	eff := fc.eng.effects(fn)
	fc.havocEffects(st, eff, name)
	if fc.mayAllocate(eff, sig) {
		fc.growAlloc(st)
	}
	return fc.freshResults(sig.Results(), st, fn.Name())
}

func (fc *FnCtx) freshResults(res *types.Tuple, st *State, hint string) Val {
	var out Tuple
	for i := 0; i < res.Len(); i++ {
		t := res.At(i).Type()
		v := fc.tb.Fresh("r_"+hint, fc.so.Sort(t))
		fc.assume(st, fc.so.InRange(v, t))
		fc.assumeWellFormed(st, v, t)
		out = append(out, v)
	}
	switch len(out) {
	case 0:
		return Tuple{}
	case 1:
		return out[0]
	}
	return out
}

func (fc *FnCtx) havocAll(st *State) { fc.havocAllExcept(st, nil) }

func (fc *FnCtx) havocAllExcept(st *State, except map[string]bool) {
	if fc.pureMode {
		fc.unsup("havoc in pure function")
	}
	for _, k := range fc.keys {
		if strings.HasPrefix(k, "ghost:") || strings.HasPrefix(k, "iter:") || strings.HasPrefix(k, "called:") || strings.HasPrefix(k, "calledafter:") || strings.HasPrefix(k, "calledwith:") || k == "alloc" || fc.eng.constGlobalKey(k) || except[k] {
			continue
		}
		st.heap[k] = fc.tb.Fresh("hv!"+k, fc.keySort[k])
	}
}

func (fc *FnCtx) havocEffects(st *State, eff *effSet, callee string) {
	if eff.all {
		if eff.except != nil {
			fc.havocAllExcept(st, eff.except)
			return
		}
		fc.note("call to " + callee + " has unknown effects: full havoc")
		fc.havocAll(st)
		return
	}
	if fc.pureMode && len(eff.keys) > 0 {
		fc.unsup("effectful call in pure function")
	}
	var ks []string
	for k := range eff.keys {
		ks = append(ks, k)
	}
	sort.Strings(ks)
	for _, k := range ks {
		if srt, ok := fc.keySort[k]; ok && !fc.eng.constGlobalKey(k) {
			st.heap[k] = fc.tb.Fresh("hv!"+k, srt)
		}
	}
	// keys written only inside objects the callee allocated itself: every object that was
	// allocated before the call keeps its contents
	var fks []string
	for k := range eff.fresh {
		if !eff.keys[k] {
			fks = append(fks, k)
		}
	}
	sort.Strings(fks)
	closed := false
	for _, k := range fks {
		if srt, ok := fc.keySort[k]; ok && strings.HasPrefix(srt, "(Array Ref ") && !closed && !fc.pureMode {
			fc.assumeClosedHeap(st)
			closed = true
		}
		srt, ok := fc.keySort[k]
		if !ok || !strings.HasPrefix(srt, "(Array Ref ") {
			continue
		}
		tb := fc.tb
		old := fc.heapGet(st, k, srt)
		nv := tb.Fresh("hf!"+k, srt)
		al := fc.heapGet(st, "alloc", ArraySort("Ref", "Bool"))
		r := tb.BoundVar("r", "Ref")
		fc.assume(st, tb.Quant(true, []*Term{r}, tb.Implies(tb.Select(al, fc.objBase(r)), tb.Eq(tb.Select(nv, r), tb.Select(old, r))), tb.Select(nv, r)))
		st.heap[k] = nv
	}
}

// mayAllocate: the call can hand the caller objects that did not exist before it
func (fc *FnCtx) mayAllocate(eff *effSet, sig *types.Signature) bool {
	if eff != nil && (eff.all || len(eff.fresh) > 0) {
		return true
	}
	for i := 0; i < sig.Results().Len(); i++ {
		switch fc.so.Sort(sig.Results().At(i).Type()) {
		case "Int", "Bool", "Str", "Real":
		default:
			return true
		}
	}
	return false
}

// growAlloc: a callee may have allocated objects: the set of allocated objects after the call is a
// superset of the one before (results are then well-formed with respect to the new set)
func (fc *FnCtx) growAlloc(st *State) {
	if fc.pureMode {
		return
	}
	tb := fc.tb
	srt := ArraySort("Ref", "Bool")
	prev := fc.heapGet(st, "alloc", srt)
	nv := tb.Fresh("al!", srt)
	r := tb.BoundVar("r", "Ref")
	fc.assume(st, tb.Quant(true, []*Term{r}, tb.Implies(tb.Select(prev, r), tb.Select(nv, r)), tb.Select(nv, r)))
	st.heap["alloc"] = nv
}

// callByContract: assert requires, havoc frame, assume ensures.
func (fc *FnCtx) callByContract(instr ssa.Instruction, name string, con *Contract, fn *ssa.Function, sig *types.Signature, args []Val, st *State, recvType types.Type) Val {
	if fc.pureMode {
		fc.unsup("call by contract in pure function")
	}
	targs := fc.termArgs(args)
	pre := st.clone()
	env := fc.calleeEnv(con, fn, sig, targs, st, pre, recvType)
	site := fc.siteOrdinal(instr, name)
	for j, c := range con.Requires {
		g := fc.transBool(env, c)
		if fc.con != nil && fc.con.CallPreAssumed && !(fn != nil && fn == fc.fn) {
			// `callpre assumed`: the callee's precondition is an assumption of this function, reported
			fc.assume(st, g)
			fc.note("requires of " + name + " assumed at its call sites in " + fc.fnName() + " (callpre assumed): " + c.Text)
			continue
		}
		fc.oblige(st, "call-pre", fmt.Sprintf("%s#call-pre#%s.%d@%d", fc.fnName(), name, j, site), g, fc.eng.pos(instr.Pos()), "requires of "+name+": "+c.Text)
	}
	// termination of recursion (lemmas: induction must be well-founded; spec functions: definition must be)
	if fn != nil && fn == fc.fn {
		if con.Decreases == nil {
			if con.Lemma || con.Pure {
				fc.unsup("recursive %s without a decreases clause", name)
			}
		} else {
			eenv := fc.entryEnv(fc.entry)
			before, _ := fc.transExpr(eenv, con.Decreases.Expr)
			after, _ := fc.transExpr(env, con.Decreases.Expr)
			bt, at := before.(*Term), after.(*Term)
			fc.oblige(st, "decreases", fmt.Sprintf("%s#decreases#rec@%d", fc.fnName(), site), fc.tb.And(fc.tb.Lt(at, bt), fc.tb.Ge(bt, fc.tb.Int(0))),
				fc.eng.pos(instr.Pos()), "recursive call decreases "+con.Decreases.Text)
		}
	}
	// frame
	if con.HasPreserves {
		fc.note("frame of " + name + " assumed: it may write anything except " + strings.Join(con.Preserves, " ") + " (T6)")
		fc.havocAllExcept(st, fc.eng.preservedKeys(con))
		fc.growAlloc(st)
	} else if con.HasAssigns {
		if !con.Trusted && fn != nil {
			if ok, why := fc.eng.frameConfirmedCached(con, fn); ok {
				fc.note("frame of " + name + " taken from its assigns clause (confirmed against its body by the write-effect analysis)")
			} else {
				fc.note("frame of " + name + " taken from its assigns clause (ASSUMED, not confirmed against its body: " + why + ")")
			}
		}
		for _, a := range con.Assigns {
			for _, k := range fc.eng.resolveAssign(con, a, fc) {
				if k == "*" {
					fc.havocAll(st)
					continue
				}
				if srt, ok := fc.keySort[k]; ok {
					st.heap[k] = fc.tb.Fresh("fr!"+k, srt)
				}
			}
		}
		if !con.Pure && fc.mayAllocate(nil, sig) {
			fc.growAlloc(st)
		}
	} else if fn != nil {
		fc.havocEffects(st, fc.eng.effects(fn), name)
		if fc.mayAllocate(fc.eng.effects(fn), sig) {
			fc.growAlloc(st)
		}
	} else if con.Pure {
		// opaque interface method / func value: no effects (T5)
	} else {
		fc.havocAll(st)
		fc.growAlloc(st)
	}
	var res Val
	if con.Pure && fn != nil {
		res = fc.eng.pureApp(fc, fn, targs, pre)
	} else if con.Pure && fn == nil {
		res = fc.ufApp(name, sig, targs)
	} else {
		res = fc.freshResults(sig.Results(), st, mangle(name))
	}
	env.st = st
	env.setResults(res, sig)
	for _, c := range con.Ensures {
		fc.assume(st, fc.transBool(env, c))
	}
	if con.Trusted {
		fc.note("trusted contract: " + name)
	}
	return res
}

func (fc *FnCtx) siteOrdinal(instr ssa.Instruction, callee string) int {
	// ordinal (by source position) of this call among calls with the same rendering in this function
	type site struct {
		pos int
		in  ssa.Instruction
	}
	var sites []site
	for _, b := range fc.fn.Blocks {
		for _, in := range b.Instrs {
			var cc *ssa.CallCommon
			switch x := in.(type) {
			case *ssa.Call:
				cc = &x.Call
			case *ssa.Defer:
				cc = &x.Call
			}
			if cc == nil {
				continue
			}
			if fc.calleeName(cc) == callee {
				sites = append(sites, site{int(in.Pos()), in})
			}
		}
	}
	sort.SliceStable(sites, func(i, j int) bool { return sites[i].pos < sites[j].pos })
	for i, s := range sites {
		if s.in == instr {
			return i
		}
	}
	return 0
}

func (fc *FnCtx) calleeName(c *ssa.CallCommon) string {
	if c.IsInvoke() {
		return "(" + typeName(c.Value.Type()) + ")." + c.Method.Name()
	}
	switch v := c.Value.(type) {
	case *ssa.Function:
		return fc.eng.shortFn(v)
	case *ssa.MakeClosure:
		return fc.eng.shortFn(v.Fn.(*ssa.Function))
	case *ssa.Builtin:
		return v.Name()
	}
	return "?"
}

func (fc *FnCtx) runDefer(d *deferRec, st *State) {
	// execute the deferred call under its registration condition
	tb := fc.tb
	if isFalse(d.cond) {
		return
	}
	before := st.clone()
	fc.callWith(d.instr, d.call, d.args, st)
	if !isTrue(d.cond) && d.cond != st.reach {
		// merge: effects only if registered
		for _, k := range sortedStrs(st.heap) {
			v := st.heap[k]
			if bv, ok := before.heap[k]; ok && bv != v {
				st.heap[k] = tb.Ite(d.cond, v, bv)
			}
		}
		for _, a := range sortedAllocs(st.cells) {
			v := st.cells[a]
			if bv, ok := before.cells[a]; ok && bv != v {
				st.cells[a] = tb.Ite(d.cond, v, bv)
			}
		}
	}
}

// ---------- builtins

func (fc *FnCtx) builtin(name string, c *ssa.CallCommon, args []Val, st *State) Val {
	tb := fc.tb
	switch name {
	case "len":
		x := fc.term(args[0])
		switch t := types.Unalias(c.Args[0].Type()).Underlying().(type) {
		case *types.Basic:
			return tb.App("s_len", "Int", x)
		case *types.Slice:
			return tb.App("s_len", "Int", x)
		case *types.Map:
			cd := tb.Ite(tb.Eq(x, tb.Const("null", "Ref")), tb.Int(0), fc.mapCard(st, t, x))
			fc.assume(st, tb.Ge(cd, tb.Int(0)))
			return cd
		case *types.Array:
			return tb.Int(t.Len())
		case *types.Pointer:
			if at, ok := types.Unalias(t.Elem()).Underlying().(*types.Array); ok {
				return tb.Int(at.Len())
			}
		case *types.Chan:
			r := tb.Fresh("chanlen", "Int")
			fc.assume(st, tb.Ge(r, tb.Int(0)))
			return r
		}
	case "cap":
		x := fc.term(args[0])
		if _, ok := types.Unalias(c.Args[0].Type()).Underlying().(*types.Slice); ok {
			return tb.App("s_cap", "Int", x)
		}
	case "append":
		return fc.appendOp(c, args, st)
	case "copy":
		return fc.copyOp(c, args, st)
	case "delete":
		m := fc.term(args[0])
		k := fc.term(args[1])
		mt := types.Unalias(c.Args[0].Type()).Underlying().(*types.Map)
		fc.guardHook(st, "mapdelete", fc.mapProvenance(c.Args[0]), map[string]Val{"key": k, "m": m}, map[string]types.Type{"key": mt.Key(), "m": c.Args[0].Type()})
		fc.mapDelete(st, mt, m, k)
		return Tuple{}
	case "ssa:wrapnilchk":
		return args[0]
	case "ssa:deferstack":
		return tb.Const("deferstack", "Ref")
	case "print", "println":
		return Tuple{}
	case "min", "max":
		x, y := fc.term(args[0]), fc.term(args[1])
		if x.Sort == "Int" && len(args) == 2 {
			if name == "min" {
				return tb.Ite(tb.Le(x, y), x, y)
			}
			return tb.Ite(tb.Ge(x, y), x, y)
		}
	case "close":
		return Tuple{}
	case "recover":
		fc.unsup("recover")
	case "panic":
		fc.unsup("panic as call")
	}
	fc.unsup("builtin %s", name)
	return nil
}

func (fc *FnCtx) elemKey(et types.Type) (string, string) {
	es := fc.so.Sort(et)
	return "E:" + es, es
}

func (fc *FnCtx) appendOp(c *ssa.CallCommon, args []Val, st *State) Val {
	tb := fc.tb
	s := fc.term(args[0])
	st0 := types.Unalias(c.Args[0].Type()).Underlying().(*types.Slice)
	if structElems(st0.Elem()) {
		return fc.appendStructs(st0.Elem(), s, fc.term(args[1]), st)
	}
	key, es := fc.elemKey(st0.Elem())
	esrt := ArraySort("Ref", ArraySort("Int", es))
	var add *Term // appended slice (Slice sort) or string
	t := fc.term(args[1])
	addIsStr := t.Sort == "Str"
	add = t
	var n *Term
	if addIsStr {
		n = tb.App("s_len", "Int", add)
	} else {
		n = tb.App("s_len", "Int", add)
	}
	ln := tb.App("s_len", "Int", s)
	cp := tb.App("s_cap", "Int", s)
	off := tb.App("s_off", "Int", s)
	arr := tb.App("s_arr", "Ref", s)
	newLen := tb.Add(ln, n)
	fits := tb.And(tb.Le(newLen, cp), tb.Not(tb.Eq(arr, tb.Const("null", "Ref"))))
	m := fc.heapGet(st, key, esrt)
	// source elements
	src := func(k *Term) *Term {
		if addIsStr {
			return tb.App("s_at", "Int", add, k)
		}
		return tb.Select(tb.Select(m, tb.App("s_arr", "Ref", add)), tb.Add(tb.App("s_off", "Int", add), k))
	}
	// result array contents: described by a fresh array with quantified facts when n is symbolic,
	// or explicit stores when the appended slice is a fresh varargs array of known small length.
	nlit, nIsLit := litInt(n)
	fresh := fc.freshRef(st, "app")
	newCap := tb.Fresh("appcap", "Int")
	fc.assume(st, tb.Ge(newCap, newLen))
	resArr := tb.Ite(fits, arr, fresh)
	resOff := tb.Ite(fits, off, tb.Int(0))
	resCap := tb.Ite(fits, cp, newCap)
	old := tb.Select(m, arr)
	var contents *Term
	if nIsLit && nlit <= 8 {
		// in-place case
		inplace := old
		for i := int64(0); i < nlit; i++ {
			inplace = tb.Store(inplace, tb.Add(tb.Add(off, ln), tb.Int(i)), src(tb.Int(i)))
		}
		// fresh case: copy of old prefix + new elements
		fr := tb.Fresh("apparr", ArraySort("Int", es))
		k := tb.BoundVar("k", "Int")
		fc.assume(st, tb.Quant(true, []*Term{k}, tb.Implies(tb.And(tb.Le(tb.Int(0), k), tb.Lt(k, ln)),
			tb.Eq(tb.Select(fr, k), tb.Select(old, tb.Add(off, k)))), tb.Select(fr, k)))
		for i := int64(0); i < nlit; i++ {
			fc.assume(st, tb.Eq(tb.Select(fr, tb.Add(ln, tb.Int(i))), src(tb.Int(i))))
		}
		contents = tb.Ite(fits, inplace, fr)
	} else {
		fr := tb.Fresh("apparr", ArraySort("Int", es))
		k := tb.BoundVar("k", "Int")
		// fresh: prefix copied, suffix from src
		fc.assume(st, tb.Implies(tb.Not(fits), tb.Quant(true, []*Term{k}, tb.And(
			tb.Implies(tb.And(tb.Le(tb.Int(0), k), tb.Lt(k, ln)), tb.Eq(tb.Select(fr, k), tb.Select(old, tb.Add(off, k)))),
			tb.Implies(tb.And(tb.Le(ln, k), tb.Lt(k, newLen)), tb.Eq(tb.Select(fr, k), src(tb.Sub(k, ln))))), tb.Select(fr, k))))
		// in place: everything outside [off+ln, off+newLen) unchanged
		fc.assume(st, tb.Implies(fits, tb.Quant(true, []*Term{k}, tb.And(
			tb.Implies(tb.Or(tb.Lt(k, tb.Add(off, ln)), tb.Ge(k, tb.Add(off, newLen))), tb.Eq(tb.Select(fr, k), tb.Select(old, k))),
			tb.Implies(tb.And(tb.Le(tb.Add(off, ln), k), tb.Lt(k, tb.Add(off, newLen))), tb.Eq(tb.Select(fr, k), src(tb.Sub(k, tb.Add(off, ln)))))), tb.Select(fr, k))))
		contents = fr
	}
	fc.guardHook(st, "append", fc.mapProvenance(c.Args[0]), map[string]Val{"s": s}, map[string]types.Type{"s": c.Args[0].Type()})
	fc.heapSet(st, key, tb.Store(m, resArr, contents))
	return tb.App("mk_slice", "Slice", resArr, resOff, newLen, resCap)
}

func (fc *FnCtx) copyOp(c *ssa.CallCommon, args []Val, st *State) Val {
	tb := fc.tb
	dst := fc.term(args[0])
	src := fc.term(args[1])
	st0 := types.Unalias(c.Args[0].Type()).Underlying().(*types.Slice)
	if structElems(st0.Elem()) {
		if src.Sort != "Slice" {
			fc.unsup("copy() of a string into a slice of struct values")
		}
		return fc.copyStructs(st0.Elem(), dst, src, st)
	}
	key, es := fc.elemKey(st0.Elem())
	m := fc.heapGet(st, key, ArraySort("Ref", ArraySort("Int", es)))
	dl := tb.App("s_len", "Int", dst)
	var sl *Term
	srcIsStr := src.Sort == "Str"
	sl = tb.App("s_len", "Int", src)
	n := tb.Ite(tb.Le(dl, sl), dl, sl)
	darr, doff := tb.App("s_arr", "Ref", dst), tb.App("s_off", "Int", dst)
	old := tb.Select(m, darr)
	fr := tb.Fresh("cpyarr", ArraySort("Int", es))
	k := tb.BoundVar("k", "Int")
	srcAt := func(i *Term) *Term {
		if srcIsStr {
			return tb.App("s_at", "Int", src, i)
		}
		// memmove semantics: source read from the pre-state
		return tb.Select(tb.Select(m, tb.App("s_arr", "Ref", src)), tb.Add(tb.App("s_off", "Int", src), i))
	}
	fc.assume(st, tb.Quant(true, []*Term{k}, tb.And(
		tb.Implies(tb.And(tb.Le(doff, k), tb.Lt(k, tb.Add(doff, n))), tb.Eq(tb.Select(fr, k), srcAt(tb.Sub(k, doff)))),
		tb.Implies(tb.Or(tb.Lt(k, doff), tb.Ge(k, tb.Add(doff, n))), tb.Eq(tb.Select(fr, k), tb.Select(old, k)))), tb.Select(fr, k)))
	fc.heapSet(st, key, tb.Ite(tb.Gt(n, tb.Int(0)), tb.Store(m, darr, fr), m))
	return n
}
