package govc

import (
	"go/types"
	"sort"
)

// A defined specification predicate becomes an SMT function of the heap maps its body reads and
// its parameters, with the definitional axiom  forall heap, params. f(heap, params) = body
// triggered on f(...): callers that only pass the predicate around need not unfold it.
type defineInfo struct {
	fn     string
	keys   []string
	ptypes []types.Type
	ret    string
	rtype  types.Type
}

func (fc *FnCtx) defineInfo(env *Env, d *Define) *defineInfo {
	if fc.defInfos == nil {
		fc.defInfos = map[string]*defineInfo{}
	}
	if di, ok := fc.defInfos[d.Name]; ok {
		if di == nil {
			fc.tfail("recursive define %s", d.Name)
		}
		return di
	}
	fc.defInfos[d.Name] = nil
	tb := fc.tb
	rec := &State{reach: tb.True(), heap: map[string]*Term{}, rec: &recInfo{}}
	env2 := &Env{fc: fc, st: rec, old: rec, vars: map[string]envVar{}, con: env.con}
	if p := fc.eng.byPath[d.Pkg]; p != nil {
		env2.pkg = p.Types
	} else {
		env2.pkg = env.pkg
	}
	di := &defineInfo{fn: "df_" + mangle(d.Name)}
	var pvars []*Term
	for _, p := range d.Params {
		pt := fc.resolveType(env2, p.Type)
		bv := tb.BoundVar("dp_"+d.Name+"_"+p.Name, fc.so.Sort(pt))
		env2.vars[p.Name] = envVar{bv, pt}
		di.ptypes = append(di.ptypes, pt)
		pvars = append(pvars, bv)
	}
	env2.oldVars = env2.vars
	body, rt := fc.transExpr(env2, d.Body.Expr)
	bt := body.(*Term)
	di.ret = bt.Sort
	di.rtype = rt
	di.keys = append([]string{}, rec.rec.keys...)
	sort.Strings(di.keys)
	var vars []*Term
	var sorts []string
	for _, k := range di.keys {
		vars = append(vars, rec.heap[k])
		sorts = append(sorts, fc.keySort[k])
	}
	for i, v := range pvars {
		vars = append(vars, v)
		sorts = append(sorts, fc.so.Sort(di.ptypes[i]))
	}
	tb.DeclFun(di.fn, sorts, di.ret)
	if len(vars) == 0 {
		tb.AddAxiom("define "+d.Name, tb.Eq(tb.Const(di.fn, di.ret), bt))
	} else {
		app := tb.App(di.fn, di.ret, vars...)
		tb.AddAxiom("define "+d.Name, tb.Quant(true, vars, tb.Eq(app, bt), app))
	}
	fc.defInfos[d.Name] = di
	return di
}
