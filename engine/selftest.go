package govc

import (
	"bytes"
	"fmt"
	"os"
	"os/exec"
	"path/filepath"
	"sort"
	"strings"
	"sync"
)

// Mutant: a deliberate property-breaking edit of snapd, applied through a build overlay
// (the repository itself is never touched).
type Mutant struct {
	ID       string   `json:"id"`
	Property string   `json:"property"`
	File     string   `json:"file"`
	Old      string   `json:"old"`
	New      string   `json:"new"`
	Expect   []string `json:"expect"` // substrings, one of which must occur in a reported obligation name
	Note     string   `json:"note"`
	Benign   bool     `json:"benign"` // harmless edit: the check must stay silent
}

// RunSelftest applies every mutant of the corpus and requires the expected obligation to fail
// (or, for benign edits, requires silence).
func RunSelftest(verif, repo, prop string) int {
	var muts []Mutant
	files, _ := filepath.Glob(filepath.Join(verif, "selftest", "mutants", "*.json"))
	sort.Strings(files)
	for _, f := range files {
		var ms []Mutant
		if err := loadJSON(f, &ms); err != nil {
			fmt.Printf("ERROR %s: %v\n", f, err)
			return 2
		}
		muts = append(muts, ms...)
	}
	tmp, err := os.MkdirTemp("", "govc-selftest-")
	if err != nil {
		fmt.Println("ERROR", err)
		return 2
	}
	defer os.RemoveAll(tmp)
	self, _ := os.Executable()
	type outcome struct {
		m   Mutant
		ok  bool
		msg string
	}
	var outs []outcome
	var mu sync.Mutex
	var wg sync.WaitGroup
	sem := make(chan struct{}, 4)
	for _, m := range muts {
		if prop != "" && m.Property != prop {
			continue
		}
		wg.Add(1)
		go func(m Mutant) {
			defer wg.Done()
			sem <- struct{}{}
			defer func() { <-sem }()
			o := outcome{m: m}
			defer func() { mu.Lock(); outs = append(outs, o); mu.Unlock() }()
			src, err := os.ReadFile(filepath.Join(repo, m.File))
			if err != nil {
				o.msg = err.Error()
				return
			}
			if n := strings.Count(string(src), m.Old); n != 1 {
				o.msg = fmt.Sprintf("pattern occurs %d times in %s (mutant stale)", n, m.File)
				return
			}
			mutated := strings.Replace(string(src), m.Old, m.New, 1)
			dir := filepath.Join(tmp, m.ID)
			os.MkdirAll(dir, 0o755)
			mf := filepath.Join(dir, filepath.Base(m.File))
			os.WriteFile(mf, []byte(mutated), 0o644)
			cmd := exec.Command(self, "check", "--property", m.Property, "--repo", repo, "--verif", verif,
				"--overlay", filepath.Join(repo, m.File)+"="+mf, "--evidence-dir", dir)
			var out bytes.Buffer
			cmd.Stdout = &out
			cmd.Stderr = &out
			cmd.Run()
			text := out.String()
			code := cmd.ProcessState.ExitCode()
			if code == 2 {
				o.msg = "check could not run (does the mutant compile?): " + lastLines(text, 3)
				return
			}
			if m.Benign {
				if code == 0 && !strings.Contains(text, "VIOLATION") {
					o.ok = true
				} else {
					o.msg = "benign edit raised an alarm: " + lastLines(text, 4)
				}
				return
			}
			if code != 1 || !strings.Contains(text, "VIOLATION property="+m.Property) {
				o.msg = "NOT DETECTED: " + lastLines(text, 4)
				return
			}
			if len(m.Expect) == 0 {
				o.ok = true
				return
			}
			for _, e := range m.Expect {
				for _, line := range strings.Split(text, "\n") {
					if strings.Contains(line, "obligation ") && strings.Contains(line, e) {
						o.ok = true
					}
				}
			}
			if !o.ok {
				o.msg = "violation reported but not on the expected obligation " + strings.Join(m.Expect, "|") + ": " + lastLines(text, 6)
			}
		}(m)
	}
	wg.Wait()
	sort.Slice(outs, func(i, j int) bool { return outs[i].m.ID < outs[j].m.ID })
	fail := 0
	for _, o := range outs {
		if o.ok {
			fmt.Printf("selftest ok    %s\n", o.m.ID)
		} else {
			fail++
			fmt.Printf("selftest FAIL  %s: %s\n", o.m.ID, o.msg)
		}
	}
	fmt.Printf("selftest: %d mutants, %d failed\n", len(outs), fail)
	if fail > 0 {
		return 1
	}
	return 0
}

func lastLines(s string, n int) string {
	ls := strings.Split(strings.TrimSpace(s), "\n")
	if len(ls) > n {
		ls = ls[len(ls)-n:]
	}
	return strings.Join(ls, " | ")
}
