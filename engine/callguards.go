package govc

import (
	"fmt"
	"go/constant"
	"go/types"
	"regexp"
	"sort"
	"strconv"
	"strings"

	"golang.org/x/tools/go/ssa"
)

var reDirPart = regexp.MustCompile(`[\w.\-]+/`)

// (*state.Task).ID -> (*Task).ID
var reRecvPkg = regexp.MustCompile(`^\((\*?)\w+\.`)

// shortCallee strips the module prefix and directory parts from a function name:
// (*github.com/snapcore/snapd/overlord/state.Task).SetStatus -> (*state.Task).SetStatus
func shortCallee(name string) string {
	return reDirPart.ReplaceAllString(name, "")
}

// callGuards: `guard call TARGET: E` clauses of the function under verification, checked at
// every matching call site. Names in E: current locals, arg0.. (arguments), recv (receiver or
// the function value called).
func (fc *FnCtx) callGuards(c *ssa.CallCommon, args []Val, st *State) {
	if fc.con == nil || fc.pureMode || len(fc.con.Guards) == 0 {
		return
	}
	var targets []string
	vals := map[string]Val{}
	typs := map[string]types.Type{}
	switch {
	case c.IsInvoke():
		targets = append(targets, "("+shortCallee(typeName(c.Value.Type()))+")."+c.Method.Name(), c.Method.Name())
		if r, ok := fc.regs[c.Value]; ok {
			vals["recv"] = r
			typs["recv"] = c.Value.Type()
		}
	default:
		switch v := c.Value.(type) {
		case *ssa.Function:
			n := v.String()
			if v.Origin() != nil {
				n = v.Origin().String()
			}
			targets = append(targets, shortCallee(n), v.Name(), reRecvPkg.ReplaceAllString(shortCallee(n), "($1"))
		case *ssa.Builtin:
			return
		case *ssa.MakeClosure:
			targets = append(targets, shortCallee(v.Fn.String()))
		default:
			if n, ok := types.Unalias(c.Value.Type()).(*types.Named); ok {
				targets = append(targets, "("+shortCallee(typeName(n))+")", n.Obj().Name())
			}
			if r, ok := fc.regs[c.Value]; ok {
				if t, isT := r.(*Term); isT {
					vals["recv"] = t
					typs["recv"] = c.Value.Type()
				}
			}
		}
	}
	for i, a := range args {
		if t, ok := a.(*Term); ok && i < len(c.Args) {
			vals[fmt.Sprintf("arg%d", i)] = t
			typs[fmt.Sprintf("arg%d", i)] = c.Args[i].Type()
		}
		// argNconst: the argument is a compile-time constant (e.g. a literal format string)
		if i < len(c.Args) {
			_, isC := c.Args[i].(*ssa.Const)
			vals[fmt.Sprintf("arg%dconst", i)] = fc.tb.Bool(isC)
			typs[fmt.Sprintf("arg%dconst", i)] = types.Typ[types.Bool]
		}
		// argNv: the concrete value behind an argument that is converted to an interface at the call
		if i < len(c.Args) {
			if mi, ok := c.Args[i].(*ssa.MakeInterface); ok {
				if t, ok := fc.regs[mi.X].(*Term); ok {
					vals[fmt.Sprintf("arg%dv", i)] = t
					typs[fmt.Sprintf("arg%dv", i)] = mi.X.Type()
				}
				// argNtype: the name of the concrete type converted to the interface (syntactic)
				tn := shortCallee(typeName(mi.X.Type()))
				if k := strings.LastIndex(tn, "."); k >= 0 {
					tn = tn[k+1:]
				}
				vals[fmt.Sprintf("arg%dtype", i)] = fc.strLit(tn)
				typs[fmt.Sprintf("arg%dtype", i)] = types.Typ[types.String]
			}
		}
	}
	seen := map[*Guard]bool{}
	for _, tgt := range targets {
		for _, g := range fc.con.Guards {
			if g.Kind != "call" || seen[g] {
				continue
			}
			gt, site := g.Target, -1
			if k := strings.LastIndex(gt, "@"); k > 0 {
				// TARGET@N: only the N-th call site of that callee in source order
				if n, err := strconv.Atoi(gt[k+1:]); err == nil {
					gt, site = gt[:k], n
				}
			}
			if gt == tgt || strings.HasSuffix(tgt, "."+gt) {
				if site >= 0 && fc.siteOrdinal(fc.curInstr, fc.calleeName(c)) != site {
					continue
				}
				seen[g] = true
				fc.oneGuard(st, g, vals, typs)
			}
		}
	}
}

func (fc *FnCtx) oneGuard(st *State, g *Guard, vals map[string]Val, typs map[string]types.Type) {
	env := fc.loopEnv(st, nil)
	for k, v := range vals {
		if t, ok := v.(*Term); ok {
			env.vars[k] = envVar{t, typs[k]}
		}
	}
	key := g.Kind + " " + g.Target + " " + g.Cond.Text
	goal := fc.guardGoal(env, g.Cond)
	if goal == nil {
		fc.guardCount[key]++
		return
	}
	fc.guardCount[key]++
	ord := fc.guardCount[key] - 1
	idx := 0
	for i, x := range fc.con.Guards {
		if x == g {
			idx = i
		}
	}
	name := fmt.Sprintf("%s#guard#%s:%s.%d@%d", fc.fnName(), g.Kind, g.Target, idx, ord)
	if g.Cond.Label != "" {
		name = fmt.Sprintf("%s#guard#%s:%s[%s]@%d", fc.fnName(), g.Kind, g.Target, g.Cond.Label, ord)
	}
	fc.oblige(st, "guard", name, goal, fc.eng.pos(fc.curInstr.Pos()), "guard "+g.Kind+" "+g.Target+": "+g.Cond.Text)
}

// callTargets: the names under which a call site can be referred to in guards and called("...")
func callTargets(c *ssa.CallCommon) []string {
	if c.IsInvoke() {
		return []string{"(" + shortCallee(typeName(c.Value.Type())) + ")." + c.Method.Name(), c.Method.Name()}
	}
	switch v := c.Value.(type) {
	case *ssa.Function:
		n := v.String()
		if v.Origin() != nil {
			n = v.Origin().String()
		}
		return []string{shortCallee(n), v.Name(), reRecvPkg.ReplaceAllString(shortCallee(n), "($1")}
	case *ssa.MakeClosure:
		return []string{shortCallee(v.Fn.String())}
	}
	// a value of a named func type
	if n, ok := types.Unalias(c.Value.Type()).(*types.Named); ok {
		return []string{"(" + shortCallee(typeName(n)) + ")", n.Obj().Name()}
	}
	return nil
}

// noteCalled maintains the per-path flags behind called("NAME"): true once a call whose target
// matches NAME has been executed on the path.
func (fc *FnCtx) noteCalled(c *ssa.CallCommon, st *State) {
	if (len(fc.calledNames) == 0 && len(fc.calledPairs) == 0 && len(fc.calledWith) == 0) || fc.pureMode {
		return
	}
	match := func(n string) bool {
		for _, tgt := range callTargets(c) {
			if n == tgt || strings.HasSuffix(tgt, "."+n) {
				return true
			}
		}
		return false
	}
	// calledAfter("X","Y") first: it looks at the flag of Y before this call is recorded
	var pairs [][2]string
	for p := range fc.calledPairs {
		pairs = append(pairs, p)
	}
	sort.Slice(pairs, func(i, j int) bool { return pairs[i][0]+"|"+pairs[i][1] < pairs[j][0]+"|"+pairs[j][1] })
	for _, p := range pairs {
		x, y := p[0], p[1]
		if match(x) {
			key := "calledafter:" + x + "|" + y
			prev := fc.heapGet(st, key, "Bool")
			fc.heapSet(st, key, fc.tb.Or(prev, fc.heapGet(st, "called:"+y, "Bool")))
		}
	}
	for _, n := range sortedStrs(fc.calledNames) {
		if match(n) {
			fc.heapSet(st, "called:"+n, fc.tb.True())
		}
	}
	// calledWith("NAME", N, "literal"): a call of NAME whose N-th argument is that string constant
	for _, k := range sortedStrs(fc.calledWith) {
		w := fc.calledWith[k]
		if !match(w.name) || w.arg >= len(c.Args) {
			continue
		}
		if cst, ok := c.Args[w.arg].(*ssa.Const); ok && cst.Value != nil && cst.Value.Kind() == constant.String && constant.StringVal(cst.Value) == w.lit {
			fc.heapSet(st, "calledwith:"+k, fc.tb.True())
		}
	}
}

type calledWithSpec struct {
	name string
	arg  int
	lit  string
}

func (fc *FnCtx) calledWithFlag(st *State, name string, arg int, lit string) *Term {
	k := fmt.Sprintf("%s|%d|%s", name, arg, lit)
	if fc.calledWith == nil {
		fc.calledWith = map[string]calledWithSpec{}
	}
	if _, ok := fc.calledWith[k]; !ok {
		fc.calledWith[k] = calledWithSpec{name, arg, lit}
		fc.newKey = true
	}
	fc.hyps = append(fc.hyps, fc.tb.Not(fc.tb.Const("h0!calledwith:"+k, "Bool")))
	return fc.heapGet(st, "calledwith:"+k, "Bool")
}

// calledAfterFlag: value of calledAfter("X","Y"): some call of X was executed after a call of Y
func (fc *FnCtx) calledAfterFlag(st *State, x, y string) *Term {
	fc.calledFlag(st, y)
	if fc.calledPairs == nil {
		fc.calledPairs = map[[2]string]bool{}
	}
	if !fc.calledPairs[[2]string{x, y}] {
		fc.calledPairs[[2]string{x, y}] = true
		fc.newKey = true
	}
	key := "calledafter:" + x + "|" + y
	fc.hyps = append(fc.hyps, fc.tb.Not(fc.tb.Const("h0!"+key, "Bool")))
	return fc.heapGet(st, key, "Bool")
}

// calledFlag: value of called("NAME") in state st (false at function entry)
func (fc *FnCtx) calledFlag(st *State, name string) *Term {
	if fc.calledNames == nil {
		fc.calledNames = map[string]bool{}
	}
	if !fc.calledNames[name] {
		fc.calledNames[name] = true
		fc.newKey = true
	}
	fc.hyps = append(fc.hyps, fc.tb.Not(fc.tb.Const("h0!called:"+name, "Bool")))
	return fc.heapGet(st, "called:"+name, "Bool")
}
