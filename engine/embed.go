package govc

import (
	"go/types"
)

// Struct-typed fields of heap objects are flattened: the sub-object of p at field f is itself a
// heap object with reference emb_T_f(p), whose fields live in the field maps of its own type.
// emb functions are injective (unemb) and their images are pairwise disjoint and disjoint from
// freshly allocated objects (emb_tag).

func (so *Sorts) Emb(owner types.Type, field string) string {
	tb := so.tb
	name := "emb!" + mangle(typeName(owner)+"."+field)
	if _, ok := tb.decls[name]; ok {
		return name
	}
	tb.DeclFun(name, []string{"Ref"}, "Ref")
	un := tb.DeclFun("un"+name, []string{"Ref"}, "Ref")
	tb.DeclFun("emb_tag", []string{"Ref"}, "Int")
	tb.DeclFun("obj_base", []string{"Ref"}, "Ref")
	id := len(so.embIDs) + 1
	if so.embIDs == nil {
		so.embIDs = map[string]int{}
	}
	so.embIDs[name] = id
	p := tb.BoundVar("p", "Ref")
	e := tb.App(name, "Ref", p)
	tb.AddAxiom("emb "+name, tb.Quant(true, []*Term{p}, tb.And(
		tb.Eq(tb.App(un, "Ref", e), p),
		tb.Eq(tb.App("emb_tag", "Int", e), tb.Int(int64(id))),
		tb.Eq(tb.App("obj_base", "Ref", e), tb.App("obj_base", "Ref", p)),
		tb.Not(tb.Eq(e, tb.Const("null", "Ref")))), e))
	return name
}

func (fc *FnCtx) embRef(ref *Term, owner types.Type, field string) *Term {
	return fc.tb.App(fc.so.Emb(owner, field), "Ref", ref)
}

// heapFieldAddr: address of field i of the heap object ref (of struct type owner). A struct-typed
// field is a sub-object: the result is then its reference, not an address.
func (fc *FnCtx) heapFieldAddr(ref *Term, owner types.Type, i int) Val {
	s, _ := isStructType(owner)
	f := s.Field(i)
	if _, isS := isStructType(f.Type()); isS {
		return fc.embRef(ref, owner, f.Name())
	}
	return &Addr{Kind: aHeap, Ref: ref, Key: fieldKey(owner, f.Name()), RootType: f.Type(), Type: f.Type()}
}

func (fc *FnCtx) loadObjField(ref *Term, owner types.Type, i int, st *State) *Term {
	switch a := fc.heapFieldAddr(ref, owner, i).(type) {
	case *Term:
		s, _ := isStructType(owner)
		return fc.loadStructObj(a, s.Field(i).Type(), st)
	case *Addr:
		return fc.load(a, st)
	}
	panic("loadObjField")
}

func (fc *FnCtx) storeObjField(ref *Term, owner types.Type, i int, st *State, v *Term) {
	switch a := fc.heapFieldAddr(ref, owner, i).(type) {
	case *Term:
		s, _ := isStructType(owner)
		ft := s.Field(i).Type()
		fc.store(&Addr{Kind: aHeap, Ref: a, Key: "OBJ", RootType: ft, Type: ft}, st, v)
	case *Addr:
		fc.storeChecked(a, st, v)
	}
}

// zeroObj zero-initialises all (flattened) fields of a fresh object.
func (fc *FnCtx) zeroObj(st *State, ref *Term, t types.Type) {
	s, _ := isStructType(t)
	for i := 0; i < s.NumFields(); i++ {
		switch a := fc.heapFieldAddr(ref, t, i).(type) {
		case *Term:
			fc.zeroObj(st, a, s.Field(i).Type())
		case *Addr:
			fc.storeRoot(a, st, fc.so.Zero(s.Field(i).Type()))
		}
	}
}

// walkEmbedded follows a path of embedded fields to the receiver of a promoted method. Sub-objects
// of heap objects stay references (pointer type); everything else is a value.
func (fc *FnCtx) walkEmbedded(env *Env, x *Term, xt types.Type, path []int) (*Term, types.Type) {
	cur, ct := x, xt
	for _, idx := range path {
		if pt, isP := types.Unalias(ct).Underlying().(*types.Pointer); isP {
			st, _ := isStructType(pt.Elem())
			f := st.Field(idx)
			switch a := fc.heapFieldAddr(cur, pt.Elem(), idx).(type) {
			case *Term:
				cur, ct = a, types.NewPointer(f.Type())
			case *Addr:
				cur, ct = fc.loadRoot(a, env.st), f.Type()
			}
			continue
		}
		st, isS := isStructType(ct)
		if !isS {
			fc.tfail("embedded path through non-struct %s", ct)
		}
		f := st.Field(idx)
		srt := fc.so.Sort(ct)
		cur = fc.tb.App(fc.so.FieldAcc(srt, f.Name(), idx), fc.so.Sort(f.Type()), cur)
		ct = f.Type()
	}
	return cur, ct
}

// flatFieldKeys lists the heap keys of all fields of a struct type, nested struct fields flattened.
func flatFieldKeys(t types.Type) []string {
	var out []string
	s, ok := isStructType(t)
	if !ok {
		return nil
	}
	for i := 0; i < s.NumFields(); i++ {
		f := s.Field(i)
		if _, isS := isStructType(f.Type()); isS {
			out = append(out, flatFieldKeys(f.Type())...)
			continue
		}
		out = append(out, fieldKey(t, f.Name()))
	}
	return out
}

func flatFieldKeySorts(so *Sorts, t types.Type) map[string]string {
	out := map[string]string{}
	s, ok := isStructType(t)
	if !ok {
		return out
	}
	for i := 0; i < s.NumFields(); i++ {
		f := s.Field(i)
		if _, isS := isStructType(f.Type()); isS {
			for k, v := range flatFieldKeySorts(so, f.Type()) {
				out[k] = v
			}
			continue
		}
		out[fieldKey(t, f.Name())] = ArraySort("Ref", so.Sort(f.Type()))
	}
	return out
}

// Elements of slices/arrays whose element type is a struct are flattened sub-objects as well:
// element i of backing array a is the object elem!S(a, i); its fields live in S's field maps.
// So &s[i] is a first-class reference and callees' writes through it are visible.

func (so *Sorts) ElemFn(elem types.Type) string {
	tb := so.tb
	name := "elem!" + mangle(typeName(elem))
	if _, ok := tb.decls[name]; ok {
		return name
	}
	tb.DeclFun(name, []string{"Ref", "Int"}, "Ref")
	ua := tb.DeclFun("unarr"+name, []string{"Ref"}, "Ref")
	ui := tb.DeclFun("unidx"+name, []string{"Ref"}, "Int")
	tb.DeclFun("emb_tag", []string{"Ref"}, "Int")
	tb.DeclFun("obj_base", []string{"Ref"}, "Ref")
	if so.embIDs == nil {
		so.embIDs = map[string]int{}
	}
	id := len(so.embIDs) + 1
	so.embIDs[name] = id
	a := tb.BoundVar("a", "Ref")
	i := tb.BoundVar("i", "Int")
	e := tb.App(name, "Ref", a, i)
	tb.AddAxiom("elem "+name, tb.Quant(true, []*Term{a, i}, tb.And(
		tb.Eq(tb.App(ua, "Ref", e), a),
		tb.Eq(tb.App(ui, "Int", e), i),
		tb.Eq(tb.App("emb_tag", "Int", e), tb.Int(int64(id))),
		tb.Eq(tb.App("obj_base", "Ref", e), tb.App("obj_base", "Ref", a)),
		tb.Not(tb.Eq(e, tb.Const("null", "Ref")))), e))
	return name
}

func (fc *FnCtx) elemRef(arr, idx *Term, elem types.Type) *Term {
	return fc.tb.App(fc.so.ElemFn(elem), "Ref", arr, idx)
}

// structElems reports whether slices/arrays of this element type use flattened element objects.
func structElems(elem types.Type) bool {
	_, ok := isStructType(elem)
	return ok
}

// assumeZeroElems: the element objects of a freshly allocated array are zero. The array is not yet
// allocated, so its previous contents are unobservable: they are taken to be zero already (no heap
// update is needed, which keeps unrelated predicates over the same field maps stable).
func (fc *FnCtx) assumeZeroElems(st *State, arr *Term, elem types.Type) {
	tb := fc.tb
	i := tb.BoundVar("zi", "Int")
	e := fc.elemRef(arr, i, elem)
	var facts []*Term
	var walk func(ref *Term, t types.Type)
	walk = func(ref *Term, t types.Type) {
		s, _ := isStructType(t)
		for k := 0; k < s.NumFields(); k++ {
			switch a := fc.heapFieldAddr(ref, t, k).(type) {
			case *Term:
				walk(a, s.Field(k).Type())
			case *Addr:
				facts = append(facts, tb.Eq(fc.loadRoot(a, st), fc.so.Zero(s.Field(k).Type())))
			}
		}
	}
	walk(e, elem)
	if len(facts) > 0 {
		fc.assume(st, tb.Quant(true, []*Term{i}, tb.And(facts...), e))
	}
}

// flatPath: one scalar (non-struct) field of a flattened struct type, reached from the object
// reference through a chain of emb functions.
type flatPath struct {
	key   string
	embs  []string // emb function names, outermost object first
	ftype types.Type
}

func (fc *FnCtx) flatPaths(t types.Type) []flatPath {
	var out []flatPath
	var walk func(t types.Type, embs []string)
	walk = func(t types.Type, embs []string) {
		s, _ := isStructType(t)
		for k := 0; k < s.NumFields(); k++ {
			f := s.Field(k)
			if _, isS := isStructType(f.Type()); isS {
				walk(f.Type(), append(append([]string{}, embs...), fc.so.Emb(t, f.Name())))
				continue
			}
			out = append(out, flatPath{key: fieldKey(t, f.Name()), embs: append([]string{}, embs...), ftype: f.Type()})
		}
	}
	walk(t, nil)
	return out
}

func (fc *FnCtx) applyEmbs(ref *Term, embs []string) *Term {
	for _, e := range embs {
		ref = fc.tb.App(e, "Ref", ref)
	}
	return ref
}

// appendStructs: append(s, vs...) for slices whose elements are flattened struct objects, with a
// literal number of appended elements (the varargs form). Both outcomes are kept: in place when
// capacity allows, otherwise a fresh array holding a copy of the old elements.
func (fc *FnCtx) appendStructs(elem types.Type, s, add *Term, st *State) Val {
	tb := fc.tb
	n, ok := litInt(tb.App("s_len", "Int", add))
	if !ok || n > 4 {
		return fc.appendStructsN(elem, s, add, st)
	}
	ln := tb.App("s_len", "Int", s)
	cp := tb.App("s_cap", "Int", s)
	off := tb.App("s_off", "Int", s)
	arr := tb.App("s_arr", "Ref", s)
	newLen := tb.Add(ln, tb.Int(n))
	fits := tb.And(tb.Le(newLen, cp), tb.Not(tb.Eq(arr, tb.Const("null", "Ref"))))
	fresh := fc.freshRef(st, "app")
	newCap := tb.Fresh("appcap", "Int")
	fc.assume(st, tb.Ge(newCap, newLen))
	elemFn := fc.so.ElemFn(elem)
	elemTag := int64(fc.so.embIDs[elemFn])
	addArr, addOff := tb.App("s_arr", "Ref", add), tb.App("s_off", "Int", add)
	for _, fp := range fc.flatPaths(elem) {
		srt := ArraySort("Ref", fc.so.Sort(fp.ftype))
		m := fc.heapGet(st, fp.key, srt)
		at := func(mm *Term, a, i *Term) *Term { return tb.Select(mm, fc.applyEmbs(fc.elemRef(a, i, elem), fp.embs)) }
		// in place
		inplace := m
		for k := int64(0); k < n; k++ {
			dst := fc.applyEmbs(fc.elemRef(arr, tb.SIdx(off, tb.Add(ln, tb.Int(k))), elem), fp.embs)
			inplace = tb.Store(inplace, dst, at(m, addArr, tb.SIdx(addOff, tb.Int(k))))
		}
		// fresh array: defined point-wise
		fr := tb.Fresh("app!"+fp.key, srt)
		x := tb.BoundVar("x", "Ref")
		// walk back from x to the element object
		e := x
		conds := []*Term{}
		for j := len(fp.embs) - 1; j >= 0; j-- {
			conds = append(conds, tb.Eq(tb.App("emb_tag", "Int", e), tb.Int(int64(fc.so.embIDs[fp.embs[j]]))))
			e = tb.App("un"+fp.embs[j], "Ref", e)
		}
		idx := tb.App("unidx"+elemFn, "Int", e)
		conds = append(conds, tb.Eq(tb.App("emb_tag", "Int", e), tb.Int(elemTag)), tb.Eq(tb.App("unarr"+elemFn, "Ref", e), fresh),
			tb.Le(tb.Int(0), idx), tb.Lt(idx, ln))
		// x must be exactly the path applied to that element (tags make the chain unique)
		conds = append(conds, tb.Eq(fc.applyEmbs(fc.elemRef(fresh, idx, elem), fp.embs), x))
		fc.assume(st, tb.Quant(true, []*Term{x}, tb.Eq(tb.Select(fr, x),
			tb.Ite(tb.And(conds...), at(m, arr, tb.SIdx(off, idx)), tb.Select(m, x))), tb.Select(fr, x)))
		freshM := fr
		for k := int64(0); k < n; k++ {
			dst := fc.applyEmbs(fc.elemRef(fresh, tb.Add(ln, tb.Int(k)), elem), fp.embs)
			freshM = tb.Store(freshM, dst, at(m, addArr, tb.SIdx(addOff, tb.Int(k))))
		}
		fc.heapSet(st, fp.key, tb.Ite(fits, inplace, freshM))
	}
	return tb.App("mk_slice", "Slice", tb.Ite(fits, arr, fresh), tb.Ite(fits, off, tb.Int(0)), newLen, tb.Ite(fits, cp, newCap))
}

// copyStructs: copy(dst, src) for slices whose elements are struct values (flattened sub-objects):
// every field map is redefined point-wise; for the element objects dst[0..n) the fields come from the
// corresponding src element in the pre-state (memmove semantics), everything else is unchanged.
func (fc *FnCtx) copyStructs(elem types.Type, dst, src *Term, st *State) Val {
	tb := fc.tb
	dl := tb.App("s_len", "Int", dst)
	sl := tb.App("s_len", "Int", src)
	n := tb.Ite(tb.Le(dl, sl), dl, sl)
	darr, doff := tb.App("s_arr", "Ref", dst), tb.App("s_off", "Int", dst)
	sarr, soff := tb.App("s_arr", "Ref", src), tb.App("s_off", "Int", src)
	elemFn := fc.so.ElemFn(elem)
	elemTag := int64(fc.so.embIDs[elemFn])
	for _, fp := range fc.flatPaths(elem) {
		srt := ArraySort("Ref", fc.so.Sort(fp.ftype))
		m := fc.heapGet(st, fp.key, srt)
		fr := tb.Fresh("cpy!"+fp.key, srt)
		x := tb.BoundVar("x", "Ref")
		e := x
		conds := []*Term{}
		for j := len(fp.embs) - 1; j >= 0; j-- {
			conds = append(conds, tb.Eq(tb.App("emb_tag", "Int", e), tb.Int(int64(fc.so.embIDs[fp.embs[j]]))))
			e = tb.App("un"+fp.embs[j], "Ref", e)
		}
		idx := tb.App("unidx"+elemFn, "Int", e)
		conds = append(conds, tb.Eq(tb.App("emb_tag", "Int", e), tb.Int(elemTag)), tb.Eq(tb.App("unarr"+elemFn, "Ref", e), darr),
			tb.Le(doff, idx), tb.Lt(idx, tb.Add(doff, n)))
		conds = append(conds, tb.Eq(fc.applyEmbs(fc.elemRef(darr, idx, elem), fp.embs), x))
		srcObj := fc.applyEmbs(fc.elemRef(sarr, tb.SIdx(soff, tb.Sub(idx, doff)), elem), fp.embs)
		fc.assume(st, tb.Quant(true, []*Term{x}, tb.Eq(tb.Select(fr, x),
			tb.Ite(tb.And(conds...), tb.Select(m, srcObj), tb.Select(m, x))), tb.Select(fr, x)))
		fc.heapSet(st, fp.key, fr)
	}
	return n
}

// appendStructsN: append(s, add...) for slices of struct values with a symbolic number of added
// elements: every field map is redefined point-wise for both outcomes (in place / fresh array).
func (fc *FnCtx) appendStructsN(elem types.Type, s, add *Term, st *State) Val {
	tb := fc.tb
	n := tb.App("s_len", "Int", add)
	ln := tb.App("s_len", "Int", s)
	cp := tb.App("s_cap", "Int", s)
	off := tb.App("s_off", "Int", s)
	arr := tb.App("s_arr", "Ref", s)
	newLen := tb.Add(ln, n)
	fits := tb.And(tb.Le(newLen, cp), tb.Not(tb.Eq(arr, tb.Const("null", "Ref"))))
	fresh := fc.freshRef(st, "app")
	newCap := tb.Fresh("appcap", "Int")
	fc.assume(st, tb.Ge(newCap, newLen))
	elemFn := fc.so.ElemFn(elem)
	elemTag := int64(fc.so.embIDs[elemFn])
	addArr, addOff := tb.App("s_arr", "Ref", add), tb.App("s_off", "Int", add)
	for _, fp := range fc.flatPaths(elem) {
		srt := ArraySort("Ref", fc.so.Sort(fp.ftype))
		m := fc.heapGet(st, fp.key, srt)
		path := func(a, i *Term) *Term { return fc.applyEmbs(fc.elemRef(a, i, elem), fp.embs) }
		x := tb.BoundVar("x", "Ref")
		e := x
		var tags []*Term
		for j := len(fp.embs) - 1; j >= 0; j-- {
			tags = append(tags, tb.Eq(tb.App("emb_tag", "Int", e), tb.Int(int64(fc.so.embIDs[fp.embs[j]]))))
			e = tb.App("un"+fp.embs[j], "Ref", e)
		}
		idx := tb.App("unidx"+elemFn, "Int", e)
		tags = append(tags, tb.Eq(tb.App("emb_tag", "Int", e), tb.Int(elemTag)))
		isElemOf := func(a *Term) *Term {
			c := append([]*Term{}, tags...)
			c = append(c, tb.Eq(tb.App("unarr"+elemFn, "Ref", e), a), tb.Eq(path(a, idx), x))
			return tb.And(c...)
		}
		// in place: elements [off+ln, off+ln+n) of arr come from add
		base := tb.Add(off, ln)
		frIn := tb.Fresh("appi!"+fp.key, srt)
		fc.assume(st, tb.Quant(true, []*Term{x}, tb.Eq(tb.Select(frIn, x),
			tb.Ite(tb.And(isElemOf(arr), tb.Le(base, idx), tb.Lt(idx, tb.Add(base, n))),
				tb.Select(m, path(addArr, tb.SIdx(addOff, tb.Sub(idx, base)))), tb.Select(m, x))), tb.Select(frIn, x)))
		// fresh array: prefix from s, suffix from add
		frF := tb.Fresh("appf!"+fp.key, srt)
		fc.assume(st, tb.Quant(true, []*Term{x}, tb.Eq(tb.Select(frF, x),
			tb.Ite(tb.And(isElemOf(fresh), tb.Le(tb.Int(0), idx), tb.Lt(idx, ln)), tb.Select(m, path(arr, tb.SIdx(off, idx))),
				tb.Ite(tb.And(isElemOf(fresh), tb.Le(ln, idx), tb.Lt(idx, newLen)), tb.Select(m, path(addArr, tb.SIdx(addOff, tb.Sub(idx, ln)))),
					tb.Select(m, x)))), tb.Select(frF, x)))
		fc.heapSet(st, fp.key, tb.Ite(fits, frIn, frF))
	}
	return tb.App("mk_slice", "Slice", tb.Ite(fits, arr, fresh), tb.Ite(fits, off, tb.Int(0)), newLen, tb.Ite(fits, cp, newCap))
}
