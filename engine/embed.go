package govc

import (
	"go/types"
)

// Struct-typed fields of heap objects are flattened: the sub-object of p at field f is itself a
// heap object with reference emb_T_f(p), whose fields live in the field maps of its own type.
// emb functions are injective (unemb) and their images are pairwise disjoint and disjoint from
// freshly allocated objects (emb_tag).

func (so *Sorts) Emb(owner types.Type, field string) string {
	tb := so.tb
	name := "emb!" + mangle(typeName(owner)+"."+field)
	if _, ok := tb.decls[name]; ok {
		return name
	}
	tb.DeclFun(name, []string{"Ref"}, "Ref")
	un := tb.DeclFun("un"+name, []string{"Ref"}, "Ref")
	tb.DeclFun("emb_tag", []string{"Ref"}, "Int")
	tb.DeclFun("obj_base", []string{"Ref"}, "Ref")
	id := len(so.embIDs) + 1
	if so.embIDs == nil {
		so.embIDs = map[string]int{}
	}
	so.embIDs[name] = id
	p := tb.BoundVar("p", "Ref")
	e := tb.App(name, "Ref", p)
	tb.AddAxiom("emb "+name, tb.Quant(true, []*Term{p}, tb.And(
		tb.Eq(tb.App(un, "Ref", e), p),
		tb.Eq(tb.App("emb_tag", "Int", e), tb.Int(int64(id))),
		tb.Eq(tb.App("obj_base", "Ref", e), tb.App("obj_base", "Ref", p)),
		tb.Not(tb.Eq(e, tb.Const("null", "Ref")))), e))
	return name
}

func (fc *FnCtx) embRef(ref *Term, owner types.Type, field string) *Term {
	return fc.tb.App(fc.so.Emb(owner, field), "Ref", ref)
}

// heapFieldAddr: address of field i of the heap object ref (of struct type owner). A struct-typed
// field is a sub-object: the result is then its reference, not an address.
func (fc *FnCtx) heapFieldAddr(ref *Term, owner types.Type, i int) Val {
	s, _ := isStructType(owner)
	f := s.Field(i)
	if _, isS := isStructType(f.Type()); isS {
		return fc.embRef(ref, owner, f.Name())
	}
	return &Addr{Kind: aHeap, Ref: ref, Key: fieldKey(owner, f.Name()), RootType: f.Type(), Type: f.Type()}
}

func (fc *FnCtx) loadObjField(ref *Term, owner types.Type, i int, st *State) *Term {
	switch a := fc.heapFieldAddr(ref, owner, i).(type) {
	case *Term:
		s, _ := isStructType(owner)
		return fc.loadStructObj(a, s.Field(i).Type(), st)
	case *Addr:
		return fc.load(a, st)
	}
	panic("loadObjField")
}

func (fc *FnCtx) storeObjField(ref *Term, owner types.Type, i int, st *State, v *Term) {
	switch a := fc.heapFieldAddr(ref, owner, i).(type) {
	case *Term:
		s, _ := isStructType(owner)
		ft := s.Field(i).Type()
		fc.store(&Addr{Kind: aHeap, Ref: a, Key: "OBJ", RootType: ft, Type: ft}, st, v)
	case *Addr:
		fc.storeChecked(a, st, v)
	}
}

// zeroObj zero-initialises all (flattened) fields of a fresh object.
func (fc *FnCtx) zeroObj(st *State, ref *Term, t types.Type) {
	s, _ := isStructType(t)
	for i := 0; i < s.NumFields(); i++ {
		switch a := fc.heapFieldAddr(ref, t, i).(type) {
		case *Term:
			fc.zeroObj(st, a, s.Field(i).Type())
		case *Addr:
			fc.storeRoot(a, st, fc.so.Zero(s.Field(i).Type()))
		}
	}
}

// walkEmbedded follows a path of embedded fields to the receiver of a promoted method. Sub-objects
// of heap objects stay references (pointer type); everything else is a value.
func (fc *FnCtx) walkEmbedded(env *Env, x *Term, xt types.Type, path []int) (*Term, types.Type) {
	cur, ct := x, xt
	for _, idx := range path {
		if pt, isP := types.Unalias(ct).Underlying().(*types.Pointer); isP {
			st, _ := isStructType(pt.Elem())
			f := st.Field(idx)
			switch a := fc.heapFieldAddr(cur, pt.Elem(), idx).(type) {
			case *Term:
				cur, ct = a, types.NewPointer(f.Type())
			case *Addr:
				cur, ct = fc.loadRoot(a, env.st), f.Type()
			}
			continue
		}
		st, isS := isStructType(ct)
		if !isS {
			fc.tfail("embedded path through non-struct %s", ct)
		}
		f := st.Field(idx)
		srt := fc.so.Sort(ct)
		cur = fc.tb.App(fc.so.FieldAcc(srt, f.Name(), idx), fc.so.Sort(f.Type()), cur)
		ct = f.Type()
	}
	return cur, ct
}

// flatFieldKeys lists the heap keys of all fields of a struct type, nested struct fields flattened.
func flatFieldKeys(t types.Type) []string {
	var out []string
	s, ok := isStructType(t)
	if !ok {
		return nil
	}
	for i := 0; i < s.NumFields(); i++ {
		f := s.Field(i)
		if _, isS := isStructType(f.Type()); isS {
			out = append(out, flatFieldKeys(f.Type())...)
			continue
		}
		out = append(out, fieldKey(t, f.Name()))
	}
	return out
}

func flatFieldKeySorts(so *Sorts, t types.Type) map[string]string {
	out := map[string]string{}
	s, ok := isStructType(t)
	if !ok {
		return out
	}
	for i := 0; i < s.NumFields(); i++ {
		f := s.Field(i)
		if _, isS := isStructType(f.Type()); isS {
			for k, v := range flatFieldKeySorts(so, f.Type()) {
				out[k] = v
			}
			continue
		}
		out[fieldKey(t, f.Name())] = ArraySort("Ref", so.Sort(f.Type()))
	}
	return out
}
