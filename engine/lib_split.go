package govc

import "fmt"

// Models of strings.Split / Join / FieldsFunc / Fields (T4).
//
// Split(s, sep) for a one-byte literal separator c is described by three uninterpreted functions
// split_n_c(s) (number of parts), split_at_c(s, i) (the i-th part) and split_pos_c(s) (a position of c
// in s when there is one) with the axioms below; the result is a fresh slice holding the parts.

func (fc *FnCtx) splitFns(sep *Term) (n, at string, ok bool) {
	txt, isLit := fc.litText[sep]
	if !isLit || len(txt) != 1 {
		return "", "", false
	}
	tb := fc.tb
	c := int64(txt[0])
	n = tb.DeclFun(fmt.Sprintf("split_n_%d", c), []string{"Str"}, "Int")
	at = tb.DeclFun(fmt.Sprintf("split_at_%d", c), []string{"Str", "Int"}, "Str")
	pos := tb.DeclFun(fmt.Sprintf("split_pos_%d", c), []string{"Str"}, "Int")
	s := tb.BoundVar("s", "Str")
	a := tb.BoundVar("a", "Str")
	b := tb.BoundVar("b", "Str")
	i := tb.BoundVar("i", "Int")
	k := tb.BoundVar("k", "Int")
	N := func(x *Term) *Term { return tb.App(n, "Int", x) }
	At := func(x, j *Term) *Term { return tb.App(at, "Str", x, j) }
	ln := func(x *Term) *Term { return tb.App("s_len", "Int", x) }
	key := fmt.Sprintf("split%d", c)
	// at least one part; a single part is the string itself
	tb.AddAxiom(key+"-n", tb.Quant(true, []*Term{s}, tb.And(tb.Ge(N(s), tb.Int(1)),
		tb.Implies(tb.Eq(N(s), tb.Int(1)), tb.Eq(At(s, tb.Int(0)), s))), N(s)))
	// more than one part: the separator occurs
	p := tb.App(pos, "Int", s)
	tb.AddAxiom(key+"-pos", tb.Quant(true, []*Term{s}, tb.Implies(tb.Gt(N(s), tb.Int(1)),
		tb.And(tb.Le(tb.Int(0), p), tb.Lt(p, ln(s)), tb.Eq(tb.App("s_at", "Int", s, p), tb.Int(c)))), N(s)))
	// the separator occurs: more than one part
	tb.AddAxiom(key+"-occ", tb.Quant(true, []*Term{s, k}, tb.Implies(tb.And(tb.Le(tb.Int(0), k), tb.Lt(k, ln(s)),
		tb.Eq(tb.App("s_at", "Int", s, k), tb.Int(c))), tb.Gt(N(s), tb.Int(1))),
		tb.mk(kApp, "", "Bool", N(s), tb.App("s_at", "Int", s, k))))
	// parts do not contain the separator
	tb.AddAxiom(key+"-parts", tb.Quant(true, []*Term{s, i}, tb.Implies(tb.And(tb.Le(tb.Int(0), i), tb.Lt(i, N(s))),
		tb.Eq(N(At(s, i)), tb.Int(1))), At(s, i)))
	// splitting a + sep + b gives the parts of a followed by the parts of b
	cat := func(x, y *Term) *Term { return tb.App("s_cat", "Str", x, y) }
	j := cat(a, cat(sep, b))
	tb.AddAxiom(key+"-cat-n", tb.Quant(true, []*Term{a, b}, tb.Eq(N(j), tb.Add(N(a), N(b))), j))
	tb.AddAxiom(key+"-cat-at", tb.Quant(true, []*Term{a, b, i}, tb.Eq(At(j, i),
		tb.Ite(tb.Lt(i, N(a)), At(a, i), At(b, tb.Sub(i, N(a))))), At(j, i)))
	return n, at, true
}

// freshStrSlice: a newly allocated []string of length n whose i-th element is elem(i)
func (fc *FnCtx) freshStrSlice(st *State, n *Term, elem func(i *Term) *Term, hint string) *Term {
	tb := fc.tb
	r := fc.freshRef(st, hint)
	srt := ArraySort("Ref", ArraySort("Int", "Str"))
	m := fc.heapGet(st, "E:Str", srt)
	contents := tb.Fresh(hint+"arr", ArraySort("Int", "Str"))
	if elem != nil {
		i := tb.BoundVar("i", "Int")
		fc.assume(st, tb.Quant(true, []*Term{i}, tb.Implies(tb.And(tb.Le(tb.Int(0), i), tb.Lt(i, n)),
			tb.Eq(tb.Select(contents, i), elem(i))), tb.Select(contents, i)))
	}
	fc.heapSet(st, "E:Str", tb.Store(m, r, contents))
	return tb.App("mk_slice", "Slice", r, tb.Int(0), n, n)
}

func init() {
	libModels["strings.Split"] = func(fc *FnCtx, st *State, args []Val) Val {
		tb := fc.tb
		s, sep := fc.term(args[0]), fc.term(args[1])
		if fc.pureMode {
			fc.unsup("strings.Split in a specification")
		}
		var nf, atf string
		ok := false
		if fc.splitSpec {
			// the axiomatic model is only brought in for functions whose contracts talk about the parts
			// (splitCount / splitPart); elsewhere the result is an unconstrained fresh slice
			nf, atf, ok = fc.splitFns(sep)
		}
		if !ok {
			fc.usedLib("strings.Split: fresh slice, nothing known about the parts (no contract of this function mentions splitCount/splitPart, or the separator is not a one-byte literal)")
			n := tb.Fresh("splitn", "Int")
			fc.assume(st, tb.Ge(n, tb.Int(0)))
			return fc.freshStrSlice(st, n, nil, "split")
		}
		fc.usedLib("strings.Split(s, c) for a one-byte literal c: parts described by split_n/split_at (>=1 part; one part iff c does not occur; parts are c-free; Split(a+c+b) = Split(a) ++ Split(b))")
		n := tb.App(nf, "Int", s)
		return fc.freshStrSlice(st, n, func(i *Term) *Term { return tb.App(atf, "Str", s, i) }, "split")
	}
	libImpure["strings.Split"] = true
	libModels["strings.Join"] = func(fc *FnCtx, st *State, args []Val) Val {
		fc.usedLib("strings.Join: exact for up to 4 elements, unconstrained beyond")
		tb := fc.tb
		el, sep := fc.term(args[0]), fc.term(args[1])
		m := fc.heapGet(st, "E:Str", ArraySort("Ref", ArraySort("Int", "Str")))
		arr, off, ln := tb.App("s_arr", "Ref", el), tb.App("s_off", "Int", el), tb.App("s_len", "Int", el)
		at := func(i int64) *Term { return tb.Select(tb.Select(m, arr), tb.SIdx(off, tb.Int(i))) }
		cat := func(x, y *Term) *Term { return tb.App("s_cat", "Str", x, y) }
		j1 := at(0)
		j2 := cat(at(0), cat(sep, at(1)))
		j3 := cat(at(0), cat(sep, cat(at(1), cat(sep, at(2)))))
		j4 := cat(at(0), cat(sep, cat(at(1), cat(sep, cat(at(2), cat(sep, at(3)))))))
		rest := tb.Fresh("join", "Str")
		return tb.Ite(tb.Le(ln, tb.Int(0)), tb.Const("s_empty", "Str"),
			tb.Ite(tb.Eq(ln, tb.Int(1)), j1, tb.Ite(tb.Eq(ln, tb.Int(2)), j2, tb.Ite(tb.Eq(ln, tb.Int(3)), j3, tb.Ite(tb.Eq(ln, tb.Int(4)), j4, rest)))))
	}
	libReads["strings.Join"] = map[string]string{"E:Str": ArraySort("Ref", ArraySort("Int", "Str"))}
	fields := func(name string) libFn {
		return func(fc *FnCtx, st *State, args []Val) Val {
			tb := fc.tb
			fc.term(args[0])
			if fc.pureMode {
				fc.unsup(name + " in a specification")
			}
			fc.usedLib(name + ": fresh slice of non-empty strings (nothing else known)")
			n := tb.Fresh("fieldsn", "Int")
			fc.assume(st, tb.Ge(n, tb.Int(0)))
			el := tb.DeclFun("fields_elem", []string{"Int", "Int"}, "Str")
			id := tb.Fresh("fieldsid", "Int")
			i := tb.BoundVar("i", "Int")
			fc.assume(st, tb.Quant(true, []*Term{i}, tb.Gt(tb.App("s_len", "Int", tb.App(el, "Str", id, i)), tb.Int(0)), tb.App(el, "Str", id, i)))
			return fc.freshStrSlice(st, n, func(i *Term) *Term { return tb.App(el, "Str", id, i) }, "fields")
		}
	}
	libModels["strings.FieldsFunc"] = fields("strings.FieldsFunc")
	libModels["strings.Fields"] = fields("strings.Fields")
	libImpure["strings.FieldsFunc"] = true
	libImpure["strings.Fields"] = true
}
