package govc

import (
	"bytes"
	"context"
	"fmt"
	"os"
	"os/exec"
	"path/filepath"
	"strings"
	"sync"
	"time"
)

type SolveResult struct {
	Status  string // unsat | sat | unknown | timeout | error
	Solver  string
	Seconds float64
	Output  string
	Model   string
}

type solverSpec struct {
	name string
	args func(file string, timeoutS int) []string
}

var solvers = []solverSpec{
	{"z3-new", func(f string, t int) []string { return []string{"z3-new", fmt.Sprintf("-T:%d", t), f} }},
	{"z3", func(f string, t int) []string { return []string{"z3", fmt.Sprintf("-T:%d", t), f} }},
	{"cvc5", func(f string, t int) []string {
		return []string{"cvc5", "--incremental", fmt.Sprintf("--tlimit=%d", t*1000), f}
	}},
}

// Solve races the solvers on the script; the first definite answer (sat/unsat) wins.
func Solve(script string, dir, name string, timeoutS int, wantModel bool) SolveResult {
	os.MkdirAll(dir, 0o755)
	file := filepath.Join(dir, mangle(name)+".smt2")
	if len(file) > 200 {
		file = filepath.Join(dir, fmt.Sprintf("obl_%x.smt2", hashString(name)))
	}
	os.WriteFile(file, []byte(script), 0o644)
	ctx, cancel := context.WithTimeout(context.Background(), time.Duration(timeoutS+2)*time.Second)
	defer cancel()
	type res struct {
		r SolveResult
	}
	ch := make(chan SolveResult, len(solvers))
	var wg sync.WaitGroup
	for _, s := range solvers {
		if wantModel && s.name == "cvc5" {
			continue // cvc5 1.0 rejects some z3-isms and rarely answers sat on quantified goals
		}
		wg.Add(1)
		go func(s solverSpec) {
			defer wg.Done()
			argv := s.args(file, timeoutS)
			start := time.Now()
			cmd := exec.CommandContext(ctx, argv[0], argv[1:]...)
			var out bytes.Buffer
			cmd.Stdout = &out
			cmd.Stderr = &out
			cmd.Run()
			text := out.String()
			first := strings.TrimSpace(strings.SplitN(text, "\n", 2)[0])
			r := SolveResult{Solver: s.name, Seconds: time.Since(start).Seconds(), Output: text}
			switch first {
			case "unsat":
				r.Status = "unsat"
			case "sat":
				r.Status = "sat"
				if i := strings.Index(text, "\n"); i >= 0 {
					r.Model = text[i+1:]
				}
			case "unknown":
				r.Status = "unknown"
			case "timeout":
				r.Status = "timeout"
			default:
				if ctx.Err() != nil {
					r.Status = "timeout"
				} else if strings.Contains(text, "timeout") {
					r.Status = "timeout"
				} else {
					r.Status = "error"
				}
			}
			ch <- r
		}(s)
	}
	go func() { wg.Wait(); close(ch) }()
	var best SolveResult
	best.Status = "timeout"
	anyTimeout := false
	defer func() {
		_ = anyTimeout
	}()
	for r := range ch {
		if r.Status == "timeout" {
			anyTimeout = true
		}
		if r.Status == "unsat" || r.Status == "sat" {
			cancel()
			// drain in background
			go func() {
				for range ch {
				}
			}()
			return r
		}
		if best.Status == "timeout" || (best.Status == "error" && r.Status != "error") {
			if r.Status == "error" && best.Solver != "" {
				continue
			}
			best = r
		}
	}
	if best.Status == "unknown" && anyTimeout {
		// one solver gave up, another ran out of time: the obligation may just be slow (eligible for the
		// longer retry), it is not a definite "cannot prove"
		best.Status = "timeout"
		best.Output = "unknown from " + best.Solver + ", time-out from another solver\n" + best.Output
	}
	return best
}
