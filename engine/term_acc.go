package govc

// accessor-of-constructor simplification and slice index helper

type accInfo struct {
	ctor string
	idx  int
}

var sliceAcc = map[string]int{"s_arr": 0, "s_off": 1, "s_len": 2, "s_cap": 3}

// simplifyAcc: acc(ctor(a0..an)) = ai
func (tb *TB) simplifyAcc(fn string, args []*Term) *Term {
	if len(args) != 1 {
		return nil
	}
	x := args[0]
	if x.Kind != kApp {
		return nil
	}
	if i, ok := sliceAcc[fn]; ok && x.Op == "mk_slice" {
		return x.Args[i]
	}
	if ai, ok := tb.accessors[fn]; ok && x.Op == ai.ctor && ai.idx < len(x.Args) {
		return x.Args[ai.idx]
	}
	return nil
}

func (tb *TB) RegisterAccessor(acc, ctor string, idx int) {
	if tb.accessors == nil {
		tb.accessors = map[string]accInfo{}
	}
	tb.accessors[acc] = accInfo{ctor, idx}
}

// SIdx is the absolute element index off+i of a slice. It is wrapped in an uninterpreted
// function (with the axiom s_idx(o,i) = o+i) so that quantifier patterns over slice elements
// do not contain arithmetic; for literal-zero offsets it is just i.
func (tb *TB) SIdx(off, i *Term) *Term {
	if o, ok := litInt(off); ok {
		if o == 0 {
			return i
		}
		if n, ok := litInt(i); ok {
			return tb.Int(o + n)
		}
	}
	tb.DeclFun("s_idx", []string{"Int", "Int"}, "Int")
	o := tb.BoundVar("o", "Int")
	k := tb.BoundVar("k", "Int")
	tb.AddAxiom("s_idx", tb.Quant(true, []*Term{o, k}, tb.Eq(tb.App("s_idx", "Int", o, k), tb.Add(o, k)), tb.App("s_idx", "Int", o, k)))
	return tb.App("s_idx", "Int", off, i)
}

// ConstArray is the array with every element equal to zero. For literal element values SMT-LIB's
// (as const ...) is used; otherwise (cvc5 insists on a value there) a named array with the axiom
// forall k. a[k] = zero.
func (tb *TB) ConstArray(idxSort, elemSort string, zero *Term) *Term {
	srt := ArraySort(idxSort, elemSort)
	if zero.Kind == kLit {
		return tb.mk(kApp, "(as const "+srt+")", srt, zero)
	}
	var sb []byte
	sb = append(sb, "zarr!"...)
	sb = append(sb, mangle(srt)...)
	sb = append(sb, '!')
	sb = append(sb, mangle(tb.Show(zero))...)
	name := string(sb)
	if len(name) > 80 {
		name = "zarr!" + mangle(srt)[:20] + "!" + itoa(int(hashString(tb.Show(zero))))
	}
	c := tb.Const(name, srt)
	k := tb.BoundVar("k", idxSort)
	tb.AddAxiom("constarray "+name, tb.Quant(true, []*Term{k}, tb.Eq(tb.Select(c, k), zero), tb.Select(c, k)))
	return c
}

func itoa(n int) string {
	if n == 0 {
		return "0"
	}
	s := ""
	for n > 0 {
		s = string(rune('0'+n%10)) + s
		n /= 10
	}
	return s
}
