package govc

import (
	"golang.org/x/tools/go/ssa"
)

// localOnly reports whether an object allocated by fn (new/&T{}/make/map literal) never becomes
// reachable from outside fn's activation: it is not returned, not stored into the heap or a global,
// not captured, and only handed to callees that (transitively) write no pre-existing heap (a callee
// that writes nothing cannot retain a pointer). Writes into such objects are invisible to callers.
func (e *Engine) localOnly(v ssa.Value) bool {
	seen := map[ssa.Value]bool{}
	var ok func(v ssa.Value) bool
	ok = func(v ssa.Value) bool {
		if seen[v] {
			return true
		}
		seen[v] = true
		refs := v.Referrers()
		if refs == nil {
			return false
		}
		for _, r := range *refs {
			switch x := r.(type) {
			case *ssa.DebugRef:
			case *ssa.Store:
				if x.Val == v {
					// the pointer itself is stored: fine only into a non-escaping local cell
					a, isAlloc := x.Addr.(*ssa.Alloc)
					if !isAlloc || a.Heap {
						return false
					}
					if !ok(a) {
						return false
					}
				}
			case *ssa.UnOp:
				if a, isAlloc := v.(*ssa.Alloc); isAlloc && !a.Heap && x.X == v {
					// load from a local cell that may hold the pointer: the loaded value aliases it
					if !ok(x) {
						return false
					}
				}
				// otherwise: a load through the pointer reads contents, not the pointer
			case *ssa.FieldAddr, *ssa.IndexAddr, *ssa.Slice, *ssa.MakeInterface, *ssa.ChangeType, *ssa.ChangeInterface, *ssa.Convert, *ssa.Field, *ssa.Index:
				if !ok(x.(ssa.Value)) {
					return false
				}
			case *ssa.Lookup, *ssa.Range, *ssa.TypeAssert:
				if ta, isTA := x.(*ssa.TypeAssert); isTA {
					if !ok(ta) {
						return false
					}
				}
			case *ssa.MapUpdate:
				if x.Key == v || x.Value == v {
					return false
				}
			case *ssa.BinOp, *ssa.If:
			case *ssa.Call:
				if b, isB := x.Call.Value.(*ssa.Builtin); isB {
					switch b.Name() {
					case "len", "cap", "delete", "ssa:wrapnilchk":
						continue
					}
					return false
				}
				if x.Call.Value == v {
					return false
				}
				callee := x.Call.StaticCallee()
				if callee == nil {
					if x.Call.IsInvoke() {
						con, _ := e.ifaceContract(x.Call.Value.Type(), x.Call.Method)
						if con != nil && (con.Pure || (con.HasAssigns && len(e.assignKeys(con)) == 0)) {
							continue
						}
					}
					return false
				}
				if libModels[callee.String()] != nil && len(libWrites[callee.String()]) == 0 {
					continue
				}
				eff := e.effects(callee)
				if eff.all || len(eff.keys) > 0 {
					return false
				}
			default:
				return false
			}
		}
		return true
	}
	return ok(v)
}

func (e *Engine) assignKeys(con *Contract) []string {
	var out []string
	for _, a := range con.Assigns {
		out = append(out, e.resolveAssign(con, a, nil)...)
	}
	return out
}

var freshSliceFuncs = map[string]bool{
	"strings.Split": true, "strings.SplitN": true, "strings.SplitAfter": true, "strings.SplitAfterN": true,
	"strings.Fields": true, "strings.FieldsFunc": true, "bytes.Split": true, "bytes.Fields": true,
}

// freshOrigin: the slice value certainly refers to an array allocated during this activation
// (make, a composite literal, a standard-library function documented to return a new slice, or
// append applied to such a slice), so that writing its elements cannot touch pre-existing memory.
func (e *Engine) freshOrigin(v ssa.Value) bool {
	seen := map[ssa.Value]bool{}
	var ok func(v ssa.Value) bool
	ok = func(v ssa.Value) bool {
		if seen[v] {
			return true
		}
		seen[v] = true
		switch x := v.(type) {
		case *ssa.MakeSlice:
			return true
		case *ssa.Slice:
			if a, isA := x.X.(*ssa.Alloc); isA {
				return a.Heap
			}
			return ok(x.X)
		case *ssa.Call:
			if b, isB := x.Call.Value.(*ssa.Builtin); isB {
				if b.Name() == "append" {
					return ok(x.Call.Args[0])
				}
				return false
			}
			if c := x.Call.StaticCallee(); c != nil {
				return freshSliceFuncs[c.String()]
			}
			return false
		case *ssa.UnOp:
			a, isA := x.X.(*ssa.Alloc)
			if !isA || a.Heap || x.Op.String() != "*" {
				return false
			}
			refs := a.Referrers()
			if refs == nil {
				return false
			}
			n := 0
			for _, r := range *refs {
				if s, isS := r.(*ssa.Store); isS && s.Addr == a {
					n++
					if !ok(s.Val) {
						return false
					}
				}
			}
			return n > 0
		case *ssa.Phi:
			for _, ed := range x.Edges {
				if !ok(ed) {
					return false
				}
			}
			return true
		case *ssa.ChangeType:
			return ok(x.X)
		}
		return false
	}
	return ok(v)
}
