package govc

import (
	"fmt"
	"go/constant"
	"go/types"
	"strings"

	"golang.org/x/tools/go/ssa"
)

type envVar struct {
	v *Term
	t types.Type
}

// Env is the evaluation environment of a contract expression.
type Env struct {
	fc         *FnCtx
	st         *State // current heap
	old        *State // heap for old(...)
	oldVars    map[string]envVar
	vars       map[string]envVar
	cells      func(name string) (envVar, bool) // locals by source name (loop/guard envs)
	pkg        *types.Package
	results    []envVar
	resNames   []string
	loop       *loopInfo
	con        *Contract
	calleeFn   *ssa.Function
	finalCache map[string]envVar
	cst        *State                // state whose local cells are current (differs from st inside old())
	freeBind   map[string]Val        // call-site env of a closure: captured variables by name
	freeType   map[string]types.Type // their (pointer) types
	oldEnv     *Env                  // step clauses: old(E) is E evaluated in this environment (head of the iteration)
}

var nilType = types.Typ[types.UntypedNil]

func (e *Env) clone() *Env {
	n := *e
	n.vars = map[string]envVar{}
	for k, v := range e.vars {
		n.vars[k] = v
	}
	return &n
}

func (e *Env) setResults(res Val, sig *types.Signature) {
	e.results = nil
	e.resNames = nil
	rs := sig.Results()
	switch r := res.(type) {
	case *Term:
		e.results = []envVar{{r, rs.At(0).Type()}}
	case Tuple:
		for i, x := range r {
			e.results = append(e.results, envVar{x.(*Term), rs.At(i).Type()})
		}
	}
	for i := 0; i < rs.Len(); i++ {
		e.resNames = append(e.resNames, rs.At(i).Name())
	}
}

// entryEnv: names are parameters at entry.
func (fc *FnCtx) entryEnv(st *State) *Env {
	env := &Env{fc: fc, st: st, old: fc.entry, vars: map[string]envVar{}, pkg: fc.fn.Pkg.Pkg, con: fc.con}
	for _, p := range fc.fn.Params {
		if t, ok := fc.regs[p].(*Term); ok {
			env.vars[p.Name()] = envVar{t, p.Type()}
		}
	}
	env.oldVars = env.vars
	return env
}

// exitEnv: parameters denote entry values; result(s) bound.
func (fc *FnCtx) exitEnv(st *State, vals []Val) *Env {
	env := fc.entryEnv(st)
	env.st = st
	env.old = fc.entry
	rs := fc.fn.Signature.Results()
	for i, v := range vals {
		env.results = append(env.results, envVar{fc.term(v), rs.At(i).Type()})
		env.resNames = append(env.resNames, rs.At(i).Name())
	}
	return env
}

// loopEnv: names are the current values of local cells (by source name), falling back to parameters.
func (fc *FnCtx) loopEnv(st *State, li *loopInfo) *Env {
	env := fc.entryEnv(st)
	env.loop = li
	params := env.vars
	env.oldVars = params
	env.vars = map[string]envVar{}
	env.cells = func(name string) (envVar, bool) {
		return fc.cellByName(st, name)
	}
	// parameters that have no cell (non-naive) keep entry values
	for k, v := range params {
		env.vars["$param$"+k] = v
	}
	return env
}

// cellByName finds the local variable cell with the given source name that is live in st.
func (fc *FnCtx) cellByName(st *State, name string) (envVar, bool) {
	allocs := fc.cellNames[name]
	var found *ssa.Alloc
	for _, a := range allocs {
		if a.Heap {
			found = a
			continue
		}
		if _, ok := st.cells[a]; ok {
			if found != nil && found != a {
				// ambiguous: prefer the later declaration (inner scope)
				if a.Pos() > found.Pos() {
					found = a
				}
				continue
			}
			found = a
		}
	}
	if found == nil {
		return envVar{}, false
	}
	et := found.Type().(*types.Pointer).Elem()
	if found.Heap {
		switch r := fc.regs[found].(type) {
		case *Addr:
			return envVar{fc.load(r, st), et}, true
		case *Term:
			// struct object: the variable denotes the object; expose as pointer
			return envVar{r, found.Type()}, true
		}
		return envVar{}, false
	}
	return envVar{st.cells[found], et}, true
}

// calleeEnv: environment for a callee's contract at a call site.
func (fc *FnCtx) calleeEnv(con *Contract, fn *ssa.Function, sig *types.Signature, args []*Term, st, pre *State, recvType types.Type) *Env {
	env := &Env{fc: fc, st: st, old: pre, vars: map[string]envVar{}, con: con}
	if fn != nil {
		env.calleeFn = fn
		env.finalCache = map[string]envVar{}
		if fn.Pkg != nil {
			env.pkg = fn.Pkg.Pkg
		} else if o := fn.Origin(); o != nil && o.Pkg != nil {
			env.pkg = o.Pkg.Pkg // instantiation of a generic function
		}
		for i, p := range fn.Params {
			if i < len(args) {
				env.vars[fmt.Sprintf("arg%d", i)] = envVar{args[i], p.Type()}
				if p.Name() != "_" && p.Name() != "" {
					env.vars[p.Name()] = envVar{args[i], p.Type()}
				}
			}
		}
		// a closure called where its bindings are known: its contract may name the captured variables
		if cl := fc.curClosure; cl != nil && cl.Fn == fn {
			env.freeBind = map[string]Val{}
			env.freeType = map[string]types.Type{}
			for i, fv := range fn.FreeVars {
				if i < len(cl.Bindings) {
					env.freeBind[fv.Name()] = cl.Bindings[i]
					env.freeType[fv.Name()] = fv.Type()
				}
			}
		}
	} else {
		// interface method or func type: receiver is "recv", parameters by signature names or argN
		i := 0
		if recvType != nil {
			env.vars["recv"] = envVar{args[0], recvType}
			i = 1
			if n, ok := types.Unalias(recvType).(*types.Named); ok && n.Obj().Pkg() != nil {
				env.pkg = n.Obj().Pkg()
			}
		}
		ps := sig.Params()
		for j := 0; j < ps.Len() && i+j < len(args); j++ {
			name := ps.At(j).Name()
			if name == "" || name == "_" {
				name = fmt.Sprintf("arg%d", j)
			}
			env.vars[name] = envVar{args[i+j], ps.At(j).Type()}
			env.vars[fmt.Sprintf("arg%d", j)] = envVar{args[i+j], ps.At(j).Type()}
		}
	}
	if env.pkg == nil {
		env.pkg = fc.fn.Pkg.Pkg
	}
	env.oldVars = env.vars
	return env
}

type transErr struct{ msg string }

func (fc *FnCtx) transBool(env *Env, c *Clause) *Term {
	v, _ := fc.transExpr(env, c.Expr)
	t, ok := v.(*Term)
	if !ok || t.Sort != "Bool" {
		fc.cfail(c, "clause is not boolean")
	}
	return t
}

func (fc *FnCtx) cfail(c *Clause, format string, a ...interface{}) {
	where := ""
	if c != nil {
		where = c.Where + ": " + c.Text + ": "
	}
	panic(unsupportedErr{"contract-stale: " + where + fmt.Sprintf(format, a...)})
}

func (fc *FnCtx) tfail(format string, a ...interface{}) {
	panic(unsupportedErr{"contract-stale: " + fmt.Sprintf(format, a...)})
}

func (fc *FnCtx) transExpr(env *Env, e CExpr) (Val, types.Type) {
	tb := fc.tb
	switch e := e.(type) {
	case *CInt:
		return tb.BigInt(parseIntLit(e.Val)), types.Typ[types.UntypedInt]
	case *CStr:
		return fc.strLit(e.Val), types.Typ[types.String]
	case *CIdent:
		return fc.transIdent(env, e.Name)
	case *CUn:
		x, xt := fc.transExpr(env, e.X)
		switch e.Op {
		case "!":
			return tb.Not(x.(*Term)), xt
		case "-":
			return tb.Sub(tb.Int(0), x.(*Term)), xt
		case "*":
			pt, ok := types.Unalias(xt).Underlying().(*types.Pointer)
			if !ok {
				fc.tfail("deref of non-pointer in contract")
			}
			if _, isS := isStructType(pt.Elem()); isS {
				return fc.loadStructObj(x.(*Term), pt.Elem(), env.st), pt.Elem()
			}
			a := &Addr{Kind: aHeap, Ref: x.(*Term), Key: fc.cellKey(pt.Elem()), RootType: pt.Elem(), Type: pt.Elem()}
			return fc.loadRoot(a, env.st), pt.Elem()
		}
	case *CBin:
		return fc.transBin(env, e)
	case *CSel:
		return fc.transSel(env, e)
	case *CIndex:
		x, xt := fc.transExpr(env, e.X)
		i, _ := fc.transExpr(env, e.I)
		return fc.indexVal(env, x.(*Term), xt, i.(*Term))
	case *CSlice:
		x, xt := fc.transExpr(env, e.X)
		xv := x.(*Term)
		var lo, hi *Term
		if e.Lo != nil {
			l, _ := fc.transExpr(env, e.Lo)
			lo = l.(*Term)
		} else {
			lo = tb.Int(0)
		}
		if e.Hi != nil {
			h, _ := fc.transExpr(env, e.Hi)
			hi = h.(*Term)
		} else {
			hi = tb.App("s_len", "Int", xv)
		}
		if xv.Sort == "Str" {
			return tb.App("s_sub", "Str", xv, lo, hi), xt
		}
		if xv.Sort == "Slice" {
			return tb.App("mk_slice", "Slice", tb.App("s_arr", "Ref", xv), tb.Add(tb.App("s_off", "Int", xv), lo), tb.Sub(hi, lo), tb.Sub(tb.App("s_cap", "Int", xv), lo)), xt
		}
		fc.tfail("slice expression on sort %s", xv.Sort)
	case *CCall:
		return fc.transCall(env, e)
	case *CQuant:
		env2 := env.clone()
		var vars []*Term
		for _, v := range e.Vars {
			t := fc.resolveType(env, v.Type)
			bv := tb.BoundVar("q_"+v.Name, fc.so.Sort(t))
			env2.vars[v.Name] = envVar{bv, t}
			vars = append(vars, bv)
		}
		// bound variables shadow cells
		oldCells := env2.cells
		names := map[string]bool{}
		for _, v := range e.Vars {
			names[v.Name] = true
		}
		if oldCells != nil {
			env2.cells = func(n string) (envVar, bool) {
				if names[n] {
					return envVar{}, false
				}
				return oldCells(n)
			}
		}
		body, _ := fc.transExpr(env2, e.Body)
		var pats []*Term
		for _, tr := range e.Trigs {
			// multi-patterns: each trigger group becomes one :pattern with several terms;
			// our Term.Pats holds single-term patterns, so groups are flattened into one app
			var ts []*Term
			for _, te := range tr {
				t, _ := fc.transExpr(env2, te)
				ts = append(ts, t.(*Term))
			}
			if len(ts) == 1 {
				pats = append(pats, ts[0])
			} else {
				pats = append(pats, tb.mk(kApp, "", "Bool", ts...)) // printed as "( t1 t2)" inside :pattern
			}
		}
		return tb.Quant(e.Forall, vars, body.(*Term), pats...), types.Typ[types.Bool]
	}
	fc.tfail("unsupported contract expression %T", e)
	return nil, nil
}

func parseIntLit(s string) string {
	if strings.HasPrefix(s, "0x") || strings.HasPrefix(s, "0X") {
		var n uint64
		fmt.Sscanf(s[2:], "%x", &n)
		return fmt.Sprint(n)
	}
	return s
}

func (fc *FnCtx) transIdent(env *Env, name string) (Val, types.Type) {
	tb := fc.tb
	switch name {
	case "true":
		return tb.True(), types.Typ[types.Bool]
	case "false":
		return tb.False(), types.Typ[types.Bool]
	case "nil":
		return nil, nilType
	case "result":
		if len(env.results) == 0 {
			fc.tfail("result used where there is none")
		}
		return env.results[0].v, env.results[0].t
	}
	if strings.HasPrefix(name, "result") {
		var i int
		if _, err := fmt.Sscanf(name, "result%d", &i); err == nil && i < len(env.results) {
			return env.results[i].v, env.results[i].t
		}
	}
	if v, ok := env.vars[name]; ok {
		return v.v, v.t
	}
	for i, rn := range env.resNames {
		if rn == name && rn != "" && i < len(env.results) {
			return env.results[i].v, env.results[i].t
		}
	}
	if env.cells != nil {
		// idxN: the hidden index cell of range-over-slice loop N (value at the loop head: index
		// of the last element already processed, -1 before the first)
		var ord int
		if n, err := fmt.Sscanf(name, "idx%d", &ord); n == 1 && err == nil && fmt.Sprintf("idx%d", ord) == name {
			if a := fc.rangeIndexCell(ord); a != nil {
				cs := env.cst
				if cs == nil {
					cs = env.st
				}
				if v, ok := cs.cells[a]; ok {
					return v, types.Typ[types.Int]
				}
			}
			fc.tfail("no range index cell for loop %d in scope", ord)
		}
		// rangedN: the slice ranged over by range-over-slice loop N (evaluated once before the loop)
		if n, err := fmt.Sscanf(name, "ranged%d", &ord); n == 1 && err == nil && fmt.Sprintf("ranged%d", ord) == name {
			if rv := fc.rangedValue(ord); rv != nil {
				if v, ok := fc.regs[rv].(*Term); ok {
					return v, rv.Type()
				}
			}
			fc.tfail("no ranged slice for loop %d in scope", ord)
		}
		if v, ok := env.cells(name); ok {
			return v.v, v.t
		}
		if v, ok := env.vars["$param$"+name]; ok {
			return v.v, v.t
		}
	}
	// captured variables of a closure called at a site where its bindings are known
	if b, ok := env.freeBind[name]; ok {
		pt := env.freeType[name]
		et := pt.(*types.Pointer).Elem()
		st := env.st
		if env.cst != nil {
			st = env.st
		}
		switch x := b.(type) {
		case *Addr:
			if _, isS := isStructType(et); isS && x.Kind == aHeap && x.Key == "OBJ" {
				return x.Ref, pt
			}
			return fc.load(x, st), et
		case *Term:
			if _, isS := isStructType(et); isS {
				return x, pt
			}
			a := &Addr{Kind: aHeap, Ref: x, Key: fc.cellKey(et), RootType: et, Type: et}
			return fc.loadRoot(a, st), et
		}
	}
	// captured variables of a closure under verification (by name; current contents of the cell)
	if env.calleeFn == nil {
		for _, fv := range fc.fn.FreeVars {
			if fv.Name() == name {
				if r, ok := fc.regs[fv].(*Term); ok {
					et := fv.Type().(*types.Pointer).Elem()
					if _, isS := isStructType(et); isS {
						return r, fv.Type()
					}
					a := &Addr{Kind: aHeap, Ref: r, Key: fc.cellKey(et), RootType: et, Type: et}
					return fc.loadRoot(a, env.st), et
				}
			}
		}
	}
	// package level
	if env.pkg != nil {
		if obj := env.pkg.Scope().Lookup(name); obj != nil {
			return fc.objValue(env, obj)
		}
	}
	if obj := types.Universe.Lookup(name); obj != nil {
		if c, ok := obj.(*types.Const); ok {
			return fc.constTerm(c.Val(), c.Type()), c.Type()
		}
	}
	fc.tfail("unknown identifier %q", name)
	return nil, nil
}

func (fc *FnCtx) constTerm(v constant.Value, t types.Type) *Term {
	tb := fc.tb
	switch v.Kind() {
	case constant.Bool:
		return tb.Bool(constant.BoolVal(v))
	case constant.Int:
		return tb.BigInt(v.ExactString())
	case constant.String:
		return fc.strLit(constant.StringVal(v))
	case constant.Float:
		if i, ok := constant.Int64Val(constant.ToInt(v)); ok {
			return tb.Int(i)
		}
	}
	fc.tfail("constant of kind %v", v.Kind())
	return nil
}

func (fc *FnCtx) objValue(env *Env, obj types.Object) (Val, types.Type) {
	switch o := obj.(type) {
	case *types.Const:
		return fc.constTerm(o.Val(), o.Type()), o.Type()
	case *types.Var:
		// package-level variable
		sp := fc.eng.prog.Package(o.Pkg())
		if sp == nil {
			fc.tfail("package of %s not loaded", o.Name())
		}
		g, ok := sp.Members[o.Name()].(*ssa.Global)
		if !ok {
			fc.tfail("%s is not a global", o.Name())
		}
		a := fc.globalAddr(g)
		return fc.loadRoot(a, env.st), a.Type
	}
	fc.tfail("identifier %s is not a value", obj.Name())
	return nil, nil
}

func (fc *FnCtx) resolveType(env *Env, ct CType) types.Type {
	var t types.Type
	if ct.MapKey != nil {
		t = types.NewMap(fc.resolveType(env, *ct.MapKey), fc.resolveType(env, *ct.MapElem))
		if ct.Slice {
			t = types.NewSlice(t)
		}
		return t
	}
	if ct.Pkg == "" {
		if obj := types.Universe.Lookup(ct.Name); obj != nil {
			if tn, ok := obj.(*types.TypeName); ok {
				t = tn.Type()
			}
		}
		if t == nil && env.pkg != nil {
			if obj := env.pkg.Scope().Lookup(ct.Name); obj != nil {
				if tn, ok := obj.(*types.TypeName); ok {
					t = tn.Type()
				}
			}
		}
	} else {
		if p := fc.importedPkg(env, ct.Pkg); p != nil {
			if obj := p.Scope().Lookup(ct.Name); obj != nil {
				if tn, ok := obj.(*types.TypeName); ok {
					t = tn.Type()
				}
			}
		}
	}
	if t == nil {
		fc.tfail("unknown type %s.%s", ct.Pkg, ct.Name)
	}
	for i := 0; i < ct.Ptr; i++ {
		t = types.NewPointer(t)
	}
	if ct.Slice {
		t = types.NewSlice(t)
	}
	return t
}

func (fc *FnCtx) importedPkg(env *Env, name string) *types.Package {
	if env.pkg != nil {
		for _, imp := range env.pkg.Imports() {
			if imp.Name() == name {
				return imp
			}
		}
	}
	// any loaded package with that name
	for _, p := range fc.eng.prog.AllPackages() {
		if p.Pkg.Name() == name {
			return p.Pkg
		}
	}
	return nil
}

func (fc *FnCtx) transBin(env *Env, e *CBin) (Val, types.Type) {
	tb := fc.tb
	boolT := types.Typ[types.Bool]
	switch e.Op {
	case "&&", "||", "==>", "<==>":
		l, _ := fc.transExpr(env, e.L)
		r, _ := fc.transExpr(env, e.R)
		lt, rt := l.(*Term), r.(*Term)
		switch e.Op {
		case "&&":
			return tb.And(lt, rt), boolT
		case "||":
			return tb.Or(lt, rt), boolT
		case "==>":
			return tb.Implies(lt, rt), boolT
		default:
			return tb.Eq(lt, rt), boolT
		}
	}
	l, ltype := fc.transExpr(env, e.L)
	r, rtype := fc.transExpr(env, e.R)
	if (e.Op == "==" || e.Op == "!=") && ltype != nilType && rtype != nilType && l != nil && r != nil {
		if lt, ok := l.(*Term); ok && lt.Sort == "Slice" {
			// in contracts, == on two slice expressions is equality of the slice headers
			eq := tb.Eq(lt, r.(*Term))
			if e.Op == "!=" {
				eq = tb.Not(eq)
			}
			return eq, boolT
		}
	}
	if ltype == nilType && rtype != nilType {
		l = fc.so.Zero(rtype)
		ltype = rtype
	}
	if rtype == nilType && ltype != nilType {
		r = fc.so.Zero(ltype)
		rtype = ltype
	}
	if l == nil || r == nil {
		fc.tfail("nil compared with nil")
	}
	lt, rt := l.(*Term), r.(*Term)
	switch e.Op {
	case "==":
		return fc.equal(lt, rt, ltype), boolT
	case "!=":
		return tb.Not(fc.equal(lt, rt, ltype)), boolT
	}
	if lt.Sort == "Str" && e.Op == "+" {
		return tb.App("s_cat", "Str", lt, rt), ltype
	}
	if lt.Sort == "Str" && rt.Sort == "Str" {
		// Go's string order: the uninterpreted relation the code's comparisons use
		slt := tb.DeclFun("s_lt", []string{"Str", "Str"}, "Bool")
		switch e.Op {
		case "<":
			return tb.App(slt, "Bool", lt, rt), boolT
		case ">":
			return tb.App(slt, "Bool", rt, lt), boolT
		case "<=":
			return tb.Not(tb.App(slt, "Bool", rt, lt)), boolT
		case ">=":
			return tb.Not(tb.App(slt, "Bool", lt, rt)), boolT
		}
	}
	if lt.Sort != "Int" || rt.Sort != "Int" {
		fc.tfail("operator %s on sorts %s,%s", e.Op, lt.Sort, rt.Sort)
	}
	resT := ltype
	if b, ok := ltype.(*types.Basic); ok && b.Info()&types.IsUntyped != 0 {
		resT = rtype
	}
	switch e.Op {
	case "<":
		return tb.Lt(lt, rt), boolT
	case "<=":
		return tb.Le(lt, rt), boolT
	case ">":
		return tb.Gt(lt, rt), boolT
	case ">=":
		return tb.Ge(lt, rt), boolT
	case "+":
		return tb.Add(lt, rt), resT
	case "-":
		return tb.Sub(lt, rt), resT
	case "*":
		return tb.Mul(lt, rt), resT
	case "/":
		return tb.App("godiv", "Int", lt, rt), resT
	case "%":
		return tb.App("gomod", "Int", lt, rt), resT
	}
	fc.tfail("operator %s", e.Op)
	return nil, nil
}

// fieldOf selects a (possibly promoted) field from a struct value or pointer.
func (fc *FnCtx) fieldOf(env *Env, x *Term, xt types.Type, name string) (*Term, types.Type, bool) {
	tb := fc.tb
	obj, index, _ := types.LookupFieldOrMethod(xt, true, env.pkg, name)
	fv, ok := obj.(*types.Var)
	if !ok || !fv.IsField() {
		// try with the field's own package (unexported fields of other packages)
		if n := namedOf(xt); n != nil && n.Obj().Pkg() != nil {
			obj, index, _ = types.LookupFieldOrMethod(xt, true, n.Obj().Pkg(), name)
			fv, ok = obj.(*types.Var)
		}
		if !ok || fv == nil || !fv.IsField() {
			return nil, nil, false
		}
	}
	cur, ct := x, xt
	for n, idx := range index {
		if pt, isP := types.Unalias(ct).Underlying().(*types.Pointer); isP {
			st, _ := isStructType(pt.Elem())
			f := st.Field(idx)
			switch a := fc.heapFieldAddr(cur, pt.Elem(), idx).(type) {
			case *Term:
				// struct-typed field: a sub-object; a value only when it is the selected field
				if n == len(index)-1 {
					cur = fc.loadStructObj(a, f.Type(), env.st)
					ct = f.Type()
				} else {
					cur = a
					ct = types.NewPointer(f.Type())
				}
			case *Addr:
				cur = fc.loadRoot(a, env.st)
				ct = f.Type()
			}
			continue
		}
		st, isS := isStructType(ct)
		if !isS {
			return nil, nil, false
		}
		f := st.Field(idx)
		srt := fc.so.Sort(ct)
		cur = tb.App(fc.so.FieldAcc(srt, f.Name(), idx), fc.so.Sort(f.Type()), cur)
		ct = f.Type()
	}
	return cur, ct, true
}

func namedOf(t types.Type) *types.Named {
	t = types.Unalias(t)
	if p, ok := t.Underlying().(*types.Pointer); ok {
		if _, isNamed := t.(*types.Named); !isNamed {
			t = types.Unalias(p.Elem())
		}
	}
	n, _ := t.(*types.Named)
	return n
}

func (fc *FnCtx) transSel(env *Env, e *CSel) (Val, types.Type) {
	// package-qualified identifier?
	if id, ok := e.X.(*CIdent); ok {
		if _, isVar := fc.lookupVar(env, id.Name); !isVar {
			if p := fc.importedPkg(env, id.Name); p != nil {
				if obj := p.Scope().Lookup(e.Name); obj != nil {
					env2 := *env
					env2.pkg = p
					return fc.objValue(&env2, obj)
				}
				fc.tfail("unknown %s.%s", id.Name, e.Name)
			}
		}
	}
	x, xt := fc.transExpr(env, e.X)
	if x == nil {
		fc.tfail("selector on nil")
	}
	v, t, ok := fc.fieldOf(env, x.(*Term), xt, e.Name)
	if !ok {
		fc.tfail("no field %s in %s", e.Name, xt)
	}
	return v, t
}

func (fc *FnCtx) lookupVar(env *Env, name string) (envVar, bool) {
	if v, ok := env.vars[name]; ok {
		return v, true
	}
	if env.cells != nil {
		if v, ok := env.cells(name); ok {
			return v, true
		}
		if v, ok := env.vars["$param$"+name]; ok {
			return v, true
		}
	}
	for i, rn := range env.resNames {
		if rn == name && i < len(env.results) {
			return env.results[i], true
		}
	}
	return envVar{}, false
}

func (fc *FnCtx) indexVal(env *Env, x *Term, xt types.Type, i *Term) (Val, types.Type) {
	tb := fc.tb
	switch u := types.Unalias(xt).Underlying().(type) {
	case *types.Basic:
		return tb.App("s_at", "Int", x, i), types.Typ[types.Uint8]
	case *types.Slice:
		if structElems(u.Elem()) {
			er := fc.elemRef(tb.App("s_arr", "Ref", x), tb.SIdx(tb.App("s_off", "Int", x), i), u.Elem())
			return fc.loadStructObj(er, u.Elem(), env.st), u.Elem()
		}
		key, es := fc.elemKey(u.Elem())
		m := fc.heapGet(env.st, key, ArraySort("Ref", ArraySort("Int", es)))
		return tb.Select(tb.Select(m, tb.App("s_arr", "Ref", x)), tb.SIdx(tb.App("s_off", "Int", x), i)), u.Elem()
	case *types.Array:
		return tb.Select(x, i), u.Elem()
	case *types.Map:
		v, _ := fc.mapGet(env.st, u, x, i)
		return v, u.Elem()
	case *types.Pointer:
		if at, ok := types.Unalias(u.Elem()).Underlying().(*types.Array); ok {
			key, es := fc.elemKey(at.Elem())
			m := fc.heapGet(env.st, key, ArraySort("Ref", ArraySort("Int", es)))
			return tb.Select(tb.Select(m, x), i), at.Elem()
		}
	}
	fc.tfail("index on %s", xt)
	return nil, nil
}

func (fc *FnCtx) transCall(env *Env, e *CCall) (Val, types.Type) {
	tb := fc.tb
	boolT := types.Typ[types.Bool]
	intT := types.Typ[types.Int]
	argT := func(i int) (*Term, types.Type) {
		v, t := fc.transExpr(env, e.Args[i])
		if v == nil {
			fc.tfail("nil argument")
		}
		return v.(*Term), t
	}
	if id, ok := e.Fun.(*CIdent); ok {
		switch id.Name {
		case "before":
			// step clauses: before(E) is E in the heap at the head of the iteration with the locals' current values
			if env.oldEnv == nil {
				fc.tfail("before() is only available in loop step clauses")
			}
			env2 := *env
			env2.st = env.oldEnv.st
			if env2.cst == nil {
				env2.cst = env.st
			}
			env2.oldEnv = nil
			return fc.transExpr(&env2, e.Args[0])
		case "old":
			if env.oldEnv != nil {
				env2 := *env.oldEnv
				env2.vars = map[string]envVar{}
				for k, v := range env.vars {
					env2.vars[k] = v // includes quantifier-bound variables
				}
				for k, v := range env.oldEnv.vars {
					env2.vars[k] = v
				}
				env2.oldEnv = nil
				return fc.transExpr(&env2, e.Args[0])
			}
			if env.old == nil {
				fc.tfail("old() not available here")
			}
			env2 := *env
			env2.st = env.old
			if env.oldVars != nil {
				env2.vars = env.oldVars
				if env.cells != nil {
					// in loop/guard envs old(E) evaluates E in the entry heap with parameters at
					// their entry values; other locals (and idxN/rangedN) keep their current values
					env2.vars = map[string]envVar{}
					for k, v := range env.oldVars {
						env2.vars[k] = v
					}
					for k, v := range env.vars {
						if strings.HasPrefix(k, "$param$") {
							env2.vars[k[len("$param$"):]] = v
						} else if _, isBound := env.oldVars[k]; !isBound {
							env2.vars[k] = v // quantifier-bound variables
						}
					}
					if env2.cst == nil {
						env2.cst = env.st
					}
				} else {
					env2.vars = map[string]envVar{}
					for k, v := range env.vars {
						env2.vars[k] = v
					}
				}
			}
			env2.results = env.results
			return fc.transExpr(&env2, e.Args[0])
		case "len":
			x, xt := argT(0)
			switch mt := types.Unalias(xt).Underlying().(type) {
			case *types.Map:
				return tb.Ite(tb.Eq(x, tb.Const("null", "Ref")), tb.Int(0), fc.mapCard(env.st, mt, x)), intT
			case *types.Array:
				return tb.Int(types.Unalias(xt).Underlying().(*types.Array).Len()), intT
			}
			return tb.App("s_len", "Int", x), intT
		case "cap":
			x, _ := argT(0)
			return tb.App("s_cap", "Int", x), intT
		case "has":
			m, mt := argT(0)
			k, _ := argT(1)
			mtt, ok := types.Unalias(mt).Underlying().(*types.Map)
			if !ok {
				fc.tfail("has() on non-map")
			}
			_, present := fc.mapGet(env.st, mtt, m, k)
			return present, boolT
		case "ite":
			c, _ := argT(0)
			a, at := argT(1)
			b, _ := argT(2)
			return tb.Ite(c, a, b), at
		case "sub":
			s, st := argT(0)
			i, _ := argT(1)
			j, _ := argT(2)
			return tb.App("s_sub", "Str", s, i, j), st
		case "cat":
			a, at := argT(0)
			b, _ := argT(1)
			return tb.App("s_cat", "Str", a, b), at
		case "allocated":
			// allocated(p): p points into an object that has been allocated (so a later `new` differs from it)
			x, _ := argT(0)
			if x.Sort != "Ref" {
				fc.tfail("allocated needs a pointer or map")
			}
			al := fc.heapGet(env.st, "alloc", ArraySort("Ref", "Bool"))
			return tb.Select(al, fc.objBase(x)), boolT
		case "mirrors":
			a, at := argT(0)
			b, bt := argT(1)
			excl := ""
			if len(e.Args) > 2 {
				s, ok := e.Args[2].(*CStr)
				if !ok {
					fc.tfail("mirrors: third argument must be a string literal of excluded field names")
				}
				excl = s.Val
			}
			return fc.mirrors(env, a, at, b, bt, excl), boolT
		case "arrayOf":
			// arrayOf(s): the backing array of a slice (nil for the nil slice); for aliasing facts
			x, _ := argT(0)
			if x.Sort != "Slice" {
				fc.tfail("arrayOf needs a slice")
			}
			return tb.App("s_arr", "Ref", x), types.Typ[types.UnsafePointer]
		case "tag":
			x, _ := argT(0)
			return tb.App("i_tag", "Int", x), intT
		case "iface":
			// iface(x): x converted to an interface value (as Go does implicitly at calls)
			x, xt := argT(0)
			if x.Sort == "Iface" {
				return x, xt
			}
			box, _ := fc.so.BoxFns(xt)
			return tb.App(box, "Iface", x), types.NewInterfaceType(nil, nil)
		case "visited":
			// visited(k): key k already iterated in the (single) map-range loop of this loop env
			k, _ := argT(0)
			for _, it := range fc.iters {
				if it.keySort == k.Sort {
					vis := fc.heapGet(env.st, it.visKey, ArraySort(it.keySort, "Bool"))
					return tb.Select(vis, k), boolT
				}
			}
			fc.tfail("visited(): no map iteration with key sort %s", k.Sort)
		case "final":
			// final(x): value of the local variable x at the return (zero value on paths that return
			// before its declaration). Lets a postcondition name its witnesses.
			id, ok := e.Args[0].(*CIdent)
			if ok && env.calleeFn != nil {
				// at a call site the callee's final locals are existential witnesses: fresh constants
				if v, ok := env.finalCache[id.Name]; ok {
					return v.v, v.t
				}
				for _, b := range env.calleeFn.Blocks {
					for _, in := range b.Instrs {
						if a, isA := in.(*ssa.Alloc); isA && a.Comment == id.Name && !a.Heap {
							et := a.Type().(*types.Pointer).Elem()
							v := envVar{tb.Fresh("final_"+id.Name, fc.so.Sort(et)), et}
							env.finalCache[id.Name] = v
							return v.v, v.t
						}
					}
				}
				fc.tfail("final(%s): no such local in callee", id.Name)
			}
			if !ok || fc.finalVals == nil {
				fc.tfail("final() needs a local variable name and is only available in ensures clauses")
			}
			v, ok := fc.finalVals[id.Name]
			if !ok {
				fc.tfail("final(%s): no such non-escaping local variable", id.Name)
			}
			return v.v, v.t
		case "atoiOK", "atoiVal":
			// the two uninterpreted functions behind the strconv.Atoi / strconv.Itoa library model
			s, _ := argT(0)
			libModels["strconv.Itoa"](fc, env.st, []Val{tb.Int(0)}) // make sure the model's axioms are present
			if id.Name == "atoiOK" {
				return tb.App(tb.DeclFun("strconv_AtoiOK", []string{"Str"}, "Bool"), "Bool", s), boolT
			}
			return tb.App(tb.DeclFun("strconv_AtoiVal", []string{"Str"}, "Int"), "Int", s), intT
		case "splitCount", "splitPart":
			// the uninterpreted functions behind the strings.Split model for a one-byte literal separator
			x, _ := argT(0)
			sl, ok := e.Args[1].(*CStr)
			if !ok {
				fc.tfail("%s needs a string literal separator", id.Name)
			}
			if !fc.splitSpec {
				fc.splitSpec = true
				fc.newKey = true // re-execute: strings.Split calls must use the axiomatic model
			}
			nf, atf, ok := fc.splitFns(fc.strLit(sl.Val))
			if !ok {
				fc.tfail("%s: separator must be one byte", id.Name)
			}
			if id.Name == "splitCount" {
				return tb.App(nf, "Int", x), intT
			}
			i, _ := argT(2)
			return tb.App(atf, "Str", x, i), types.Typ[types.String]
		case "calledWith":
			// calledWith("NAME", N, "lit"): a call of NAME with the string constant lit as N-th argument
			// (receiver = 0) was executed earlier on this path
			sn, ok1 := e.Args[0].(*CStr)
			sl, ok3 := e.Args[2].(*CStr)
			an, _ := argT(1)
			ai, ok2 := litInt(an)
			if !ok1 || !ok2 || !ok3 {
				fc.tfail("calledWith needs (string literal, integer literal, string literal)")
			}
			if env.calleeFn != nil || env.con != fc.con {
				return tb.Fresh("callee_calledwith", "Bool"), boolT
			}
			return fc.calledWithFlag(env.st, sn.Val, int(ai), sl.Val), boolT
		case "calledAfter":
			// calledAfter("X", "Y"): a call of X was executed after a call of Y on this path
			sx, ok1 := e.Args[0].(*CStr)
			sy, ok2 := e.Args[1].(*CStr)
			if !ok1 || !ok2 {
				fc.tfail("calledAfter needs two string literals")
			}
			if env.calleeFn != nil || env.con != fc.con {
				// a callee's contract evaluated at a call site: its call history is not the caller's
				return tb.Fresh("callee_calledafter", "Bool"), boolT
			}
			return fc.calledAfterFlag(env.st, sx.Val, sy.Val), boolT
		case "called":
			// called("NAME"): a call to NAME has been executed earlier on this path of the function
			s, ok := e.Args[0].(*CStr)
			if !ok {
				fc.tfail("called needs a string literal")
			}
			if env.calleeFn != nil || env.con != fc.con {
				// a callee's contract evaluated at a call site: its call history is not the caller's
				return tb.Fresh("callee_called", "Bool"), boolT
			}
			return fc.calledFlag(env.st, s.Val), boolT
		case "infunc":
			s, ok := e.Args[0].(*CStr)
			if !ok {
				fc.tfail("infunc needs a string literal")
			}
			return tb.Bool(fc.fnName() == s.Val || fc.fn.Name() == s.Val), boolT
		}
		// defined specification predicates: expanded here, evaluated in the current state
		if d, ok := fc.eng.cs.Defines[id.Name]; ok {
			if len(e.Args) != len(d.Params) {
				fc.tfail("define %s expects %d arguments", d.Name, len(d.Params))
			}
			di := fc.defineInfo(env, d)
			var args []*Term
			for _, k := range di.keys {
				args = append(args, fc.heapGet(env.st, k, fc.keySort[k]))
			}
			for i := range d.Params {
				v, _ := fc.transExpr(env, e.Args[i])
				if v == nil {
					v = fc.so.Zero(di.ptypes[i])
				}
				if v.(*Term).Sort != fc.so.Sort(di.ptypes[i]) {
					fc.tfail("define %s: argument %d has sort %s, parameter %s wants %s", d.Name, i, v.(*Term).Sort, d.Params[i].Name, fc.so.Sort(di.ptypes[i]))
				}
				args = append(args, v.(*Term))
			}
			if len(args) == 0 {
				return tb.Const(di.fn, di.ret), di.rtype
			}
			return tb.App(di.fn, di.ret, args...), di.rtype
		}
		// ghost maps
		if g, ok := fc.eng.cs.Ghosts[id.Name]; ok {
			var args []*Term
			for i := range e.Args {
				a, _ := argT(i)
				args = append(args, a)
			}
			return fc.ghostGet(env.st, g, args), ghostType(g.Ret)
		}
		// local (cell) function values are not callable in contracts
		// spec / pure function in the package
		if env.pkg != nil {
			if obj := env.pkg.Scope().Lookup(id.Name); obj != nil {
				switch o := obj.(type) {
				case *types.Func:
					return fc.callPureObj(env, o, nil, nil, e.Args)
				case *types.TypeName:
					// conversion
					x, _ := argT(0)
					return fc.convTerm(x, o.Type()), o.Type()
				}
			}
		}
		if obj := types.Universe.Lookup(id.Name); obj != nil {
			if tn, ok := obj.(*types.TypeName); ok {
				x, _ := argT(0)
				return fc.convTerm(x, tn.Type()), tn.Type()
			}
		}
		fc.tfail("unknown function %s in contract", id.Name)
	}
	if sel, ok := e.Fun.(*CSel); ok {
		// pkg.Func(...)
		if id, ok := sel.X.(*CIdent); ok {
			if _, isVar := fc.lookupVar(env, id.Name); !isVar {
				if p := fc.importedPkg(env, id.Name); p != nil {
					full := p.Path() + "." + sel.Name
					if m := libModels[full]; m != nil {
						var args []Val
						for i := range e.Args {
							a, _ := argT(i)
							args = append(args, a)
						}
						res := m(fc, env.st, args)
						obj := p.Scope().Lookup(sel.Name)
						var rt types.Type = types.Typ[types.Int]
						if f, ok := obj.(*types.Func); ok && f.Type().(*types.Signature).Results().Len() > 0 {
							rt = f.Type().(*types.Signature).Results().At(0).Type()
						}
						if tup, isT := res.(Tuple); isT {
							return tup[0], rt
						}
						return res, rt
					}
					if obj := p.Scope().Lookup(sel.Name); obj != nil {
						switch o := obj.(type) {
						case *types.Func:
							return fc.callPureObj(env, o, nil, nil, e.Args)
						case *types.TypeName:
							x, _ := argT(0)
							return fc.convTerm(x, o.Type()), o.Type()
						}
					}
					fc.tfail("unknown function %s.%s", id.Name, sel.Name)
				}
			}
		}
		// method call x.M(args)
		x, xt := fc.transExpr(env, sel.X)
		if x == nil {
			fc.tfail("method call on nil")
		}
		xv := x.(*Term)
		if isTimeTime(xt) || isDuration(xt) {
			if v, t, ok := fc.timeMethod(env, xv, xt, sel.Name, e.Args); ok {
				return v, t
			}
		}
		obj, index, _ := types.LookupFieldOrMethod(xt, true, env.pkg, sel.Name)
		if obj == nil {
			if n := namedOf(xt); n != nil && n.Obj().Pkg() != nil {
				obj, index, _ = types.LookupFieldOrMethod(xt, true, n.Obj().Pkg(), sel.Name)
			}
		}
		if m, ok := obj.(*types.Func); ok {
			if types.IsInterface(xt) {
				// abstract method: usable in contracts only if declared opaque
				con, key := fc.eng.ifaceContract(xt, m)
				if con == nil || !con.Pure {
					fc.tfail("interface method %s used in a contract has no opaque contract", key)
				}
				args := []*Term{xv}
				for i := range e.Args {
					a, _ := argT(i)
					args = append(args, a)
				}
				sig := m.Type().(*types.Signature)
				return fc.ufApp(key, sig, args), sig.Results().At(0).Type()
			}
			if len(index) > 1 {
				xv, xt = fc.walkEmbedded(env, xv, xt, index[:len(index)-1])
			}
			return fc.callPureObj(env, m, xv, xt, e.Args)
		}
		fc.tfail("unknown method %s on %s", sel.Name, xt)
	}
	fc.tfail("unsupported call form in contract")
	return nil, nil
}

func isDuration(t types.Type) bool {
	if n, ok := types.Unalias(t).(*types.Named); ok {
		return n.Obj().Pkg() != nil && n.Obj().Pkg().Path() == "time" && n.Obj().Name() == "Duration"
	}
	return false
}

func (fc *FnCtx) convTerm(x *Term, to types.Type) *Term {
	if x.Sort == fc.so.Sort(to) {
		return x
	}
	fc.tfail("conversion between sorts %s and %s in contract", x.Sort, fc.so.Sort(to))
	return nil
}

func (fc *FnCtx) timeMethod(env *Env, x *Term, xt types.Type, name string, args []CExpr) (*Term, types.Type, bool) {
	tb := fc.tb
	boolT := types.Typ[types.Bool]
	arg := func(i int) *Term {
		v, _ := fc.transExpr(env, args[i])
		return v.(*Term)
	}
	if isTimeTime(xt) {
		switch name {
		case "Before":
			return tb.Lt(x, arg(0)), boolT, true
		case "After":
			return tb.Gt(x, arg(0)), boolT, true
		case "Equal":
			return tb.Eq(x, arg(0)), boolT, true
		case "IsZero":
			return tb.Eq(x, tb.Const("time_zero", "Int")), boolT, true
		case "Add":
			return tb.Add(x, arg(0)), xt, true
		case "Sub":
			dur := fc.lookupNamed("time", "Duration")
			return tb.Sub(x, arg(0)), dur, true
		}
	}
	return nil, nil, false
}

func (fc *FnCtx) lookupNamed(pkgPath, name string) types.Type {
	for _, p := range fc.eng.prog.AllPackages() {
		if p.Pkg.Path() == pkgPath {
			if o := p.Pkg.Scope().Lookup(name); o != nil {
				return o.Type()
			}
		}
	}
	return types.Typ[types.Int64]
}

// callPureObj applies a pure (spec or real) function/method inside a contract.
func (fc *FnCtx) callPureObj(env *Env, f *types.Func, recv *Term, recvT types.Type, args []CExpr) (Val, types.Type) {
	fn := fc.eng.prog.FuncValue(f)
	if fn == nil {
		fc.tfail("no SSA function for %s", f.FullName())
	}
	sig := f.Type().(*types.Signature)
	var targs []*Term
	if recv != nil {
		// adjust receiver: pointer vs value
		want := sig.Recv().Type()
		_, wantPtr := types.Unalias(want).Underlying().(*types.Pointer)
		_, havePtr := types.Unalias(recvT).Underlying().(*types.Pointer)
		switch {
		case wantPtr == havePtr:
			targs = append(targs, recv)
		case !wantPtr && havePtr:
			pt := types.Unalias(recvT).Underlying().(*types.Pointer)
			if _, isS := isStructType(pt.Elem()); isS {
				targs = append(targs, fc.loadStructObj(recv, pt.Elem(), env.st))
			} else {
				a := &Addr{Kind: aHeap, Ref: recv, Key: fc.cellKey(pt.Elem()), RootType: pt.Elem(), Type: pt.Elem()}
				targs = append(targs, fc.loadRoot(a, env.st))
			}
		default:
			fc.tfail("method %s needs a pointer receiver", f.Name())
		}
	}
	for i, a := range args {
		v, t := fc.transExpr(env, a)
		if v == nil {
			// nil literal: zero of the parameter type
			pi := i
			if pi < sig.Params().Len() {
				v = fc.so.Zero(sig.Params().At(pi).Type())
			} else {
				fc.tfail("nil argument")
			}
		}
		_ = t
		targs = append(targs, v.(*Term))
	}
	var rt types.Type = types.Typ[types.Bool]
	if sig.Results().Len() > 0 {
		rt = sig.Results().At(0).Type()
	}
	name := fn.String()
	if m := libModels[name]; m != nil {
		var vs []Val
		for _, t := range targs {
			vs = append(vs, t)
		}
		res := m(fc, env.st, vs)
		if tup, ok := res.(Tuple); ok {
			return tup[0], rt
		}
		return res, rt
	}
	con := fc.eng.contractFor(fn)
	if (con != nil && con.Pure) || fc.eng.autoPure(fn) {
		return fc.eng.pureApp(fc, fn, targs, env.st), rt
	}
	fc.tfail("function %s used in a contract is not pure", fn.String())
	return nil, nil
}

// ---------- ghost maps

func ghostSort(s string) string {
	switch s {
	case "ref":
		return "Ref"
	case "int":
		return "Int"
	case "str", "string":
		return "Str"
	case "bool":
		return "Bool"
	case "iface":
		return "Iface"
	case "slice":
		return "Slice"
	case "func":
		return "Func"
	}
	return s
}

func ghostType(s string) types.Type {
	switch s {
	case "int":
		return types.Typ[types.Int]
	case "str", "string":
		return types.Typ[types.String]
	case "bool":
		return types.Typ[types.Bool]
	case "iface":
		return types.NewInterfaceType(nil, nil)
	case "slice":
		return types.NewSlice(types.Typ[types.Uint8])
	case "func":
		return types.NewSignatureType(nil, nil, nil, nil, nil, false)
	}
	return types.Typ[types.UnsafePointer]
}

func (fc *FnCtx) ghostSortOf(g *GhostDecl) string {
	srt := ghostSort(g.Ret)
	for i := len(g.Args) - 1; i >= 0; i-- {
		srt = ArraySort(ghostSort(g.Args[i]), srt)
	}
	return srt
}

func (fc *FnCtx) ghostGet(st *State, g *GhostDecl, args []*Term) *Term {
	v := fc.heapGet(st, "ghost:"+g.Name, fc.ghostSortOf(g))
	for _, a := range args {
		v = fc.tb.Select(v, a)
	}
	return v
}
