package govc

import "strings"

// objBase(r): the allocated object a reference belongs to (sub-objects of flattened struct
// fields belong to their owner). alive(st, v): v is null or belongs to an allocated object.

func (fc *FnCtx) objBase(r *Term) *Term {
	fc.tb.DeclFun("obj_base", []string{"Ref"}, "Ref")
	return fc.tb.App("obj_base", "Ref", r)
}

func (fc *FnCtx) alive(st *State, v *Term) *Term {
	tb := fc.tb
	al := fc.heapGet(st, "alloc", ArraySort("Ref", "Bool"))
	return tb.Or(tb.Eq(v, tb.Const("null", "Ref")), tb.Select(al, fc.objBase(v)))
}

// assumeClosedHeap (A-heap): every reference stored in the heap points into an allocated object.
// This is Go's memory safety; it is emitted (as quantified hypotheses over the current heap maps)
// only where a frame condition over freshly allocated objects needs it.
func (fc *FnCtx) assumeClosedHeap(st *State) {
	tb := fc.tb
	al := fc.heapGet(st, "alloc", ArraySort("Ref", "Bool"))
	null := tb.Const("null", "Ref")
	ok := func(v *Term) *Term { return tb.Or(tb.Eq(v, null), tb.Select(al, fc.objBase(v))) }
	r := tb.BoundVar("r", "Ref")
	for _, k := range fc.keys {
		srt := fc.keySort[k]
		if strings.HasPrefix(k, "ghost:") || strings.HasPrefix(k, "iter:") || k == "alloc" {
			continue
		}
		m, has := st.heap[k]
		if !has {
			continue
		}
		switch {
		case srt == ArraySort("Ref", "Ref"):
			fc.assume(st, tb.Quant(true, []*Term{r}, ok(tb.Select(m, r)), tb.Select(m, r)))
		case srt == ArraySort("Ref", "Slice"):
			a := tb.App("s_arr", "Ref", tb.Select(m, r))
			fc.assume(st, tb.Quant(true, []*Term{r}, ok(a), tb.Select(m, r)))
		case srt == ArraySort("Ref", ArraySort("Int", "Ref")):
			i := tb.BoundVar("i", "Int")
			e := tb.Select(tb.Select(m, r), i)
			fc.assume(st, tb.Quant(true, []*Term{r, i}, ok(e), e))
		case strings.HasPrefix(k, "Mv:") && strings.HasSuffix(srt, " Ref))"):
			ks, _, _ := arraySorts(srt[len("(Array Ref ") : len(srt)-1])
			kk := tb.BoundVar("kk", ks)
			e := tb.Select(tb.Select(m, r), kk)
			fc.assume(st, tb.Quant(true, []*Term{r, kk}, ok(e), e))
		}
	}
	fc.note("A-heap: references stored in the heap point into allocated objects (Go memory safety), used for frames over callee-allocated objects")
}
