package govc

import (
	"go/types"
)

// ufApp: result of an opaque (pure, uninterpreted) interface method or func-typed value applied to
// its receiver and arguments. Assumption T5: the method is deterministic and does not depend on
// mutable state.
func (fc *FnCtx) ufApp(key string, sig *types.Signature, args []*Term) *Term {
	var sorts []string
	for _, a := range args {
		sorts = append(sorts, a.Sort)
	}
	if sig.Results().Len() != 1 {
		fc.unsup("opaque %s must have exactly one result", key)
	}
	ret := fc.so.Sort(sig.Results().At(0).Type())
	name := fc.tb.DeclFun("uf_"+key, sorts, ret)
	fc.note("opaque method " + key + " is an uninterpreted function of its receiver and arguments (T5)")
	if len(args) == 0 {
		return fc.tb.Const(name, ret)
	}
	return fc.tb.App(name, ret, args...)
}

// ifaceContract finds the contract of an interface method or named func type.
func (e *Engine) ifaceContract(recv types.Type, method *types.Func) (*Contract, string) {
	key := "(" + typeName(recv) + ")"
	if method != nil {
		key += "." + method.Name()
	}
	if c := e.cs.ByKey[key]; c != nil {
		return c, key
	}
	var pkg *types.Package
	if method != nil {
		pkg = method.Pkg()
	} else if n, ok := types.Unalias(recv).(*types.Named); ok {
		pkg = n.Obj().Pkg()
	}
	if pkg != nil {
		if c := e.cs.ByKey[pkg.Path()+"::"+key]; c != nil {
			return c, key
		}
	}
	return nil, key
}
