package govc

import (
	"fmt"
	"go/types"
	"os"
	"path/filepath"
	"sort"
	"strings"
	"sync"

	"golang.org/x/tools/go/ssa"
)

// RunSweep: zero-annotation crash sweep. Every function of the given packages that has no contract gets
// the thin contract `nopanic`; only safety obligations for which a solver returns a model AND the model
// replays as a panic on the real code (in-package test through a build overlay) are reported. Nothing
// else is claimed: an obligation that is not discharged without a confirmed input is not a finding.
func RunSweep(repo, verif string, patterns []string, only string) int {
	eng, err := Load(repo, patterns, filepath.Join(verif, "engine", "lib"), nil)
	if err != nil {
		fmt.Println("ERROR loading packages:", err)
		return 2
	}
	want := map[string]bool{}
	for _, p := range patterns {
		want[snapdMod+"/"+strings.TrimPrefix(p, "./")] = true
	}
	tmp, _ := os.MkdirTemp("", "govc-sweep-")
	defer os.RemoveAll(tmp)
	cfg := &CheckConfig{Property: "SWEEP", Tier: "quick", Repo: repo, Verif: verif, EvidenceDir: tmp, NoBaseline: true}
	var fns []*ssa.Function
	for fn := range allFunctions(eng) {
		if fn.Pkg == nil || !want[fn.Pkg.Pkg.Path()] || fn.Blocks == nil || fn.Synthetic != "" || fn.Parent() != nil {
			continue
		}
		if strings.HasSuffix(eng.prog.Fset.Position(fn.Pos()).Filename, "_test.go") || strings.HasSuffix(eng.prog.Fset.Position(fn.Pos()).Filename, "contracts_verif.go") {
			continue
		}
		if only != "" && !strings.Contains(fn.String(), only) {
			continue
		}
		if eng.contractFor(fn) != nil {
			continue
		}
		fns = append(fns, fn)
	}
	sort.Slice(fns, func(i, j int) bool { return fns[i].String() < fns[j].String() })
	var results []*OblResult
	owner := map[*OblResult]*FnCtx{}
	skipped := 0
	for _, fn := range fns {
		con := &Contract{Key: funcKey(fn), Pkg: fn.Pkg.Pkg.Path(), NoPanic: true, Props: []string{"SWEEP"}}
		fc := eng.NewFnCtx(fn, con)
		func() {
			defer func() {
				if r := recover(); r != nil {
					fc.unsupported = append(fc.unsupported, fmt.Sprint(r))
				}
			}()
			fc.Run()
		}()
		if len(fc.unsupported) > 0 {
			skipped++
			continue
		}
		for _, o := range fc.obls {
			if o.Kind != "safety" {
				continue
			}
			r := fc.mkResult(o)
			results = append(results, r)
			owner[r] = fc
		}
	}
	fmt.Printf("sweep: %d functions without contract, %d outside the supported subset, %d safety obligations\n", len(fns), skipped, len(results))
	work := scratchDir(cfg)
	var wg sync.WaitGroup
	sem := make(chan struct{}, 8)
	for _, r := range results {
		wg.Add(1)
		go func(r *OblResult) {
			defer wg.Done()
			sem <- struct{}{}
			defer func() { <-sem }()
			r.res = Solve(r.script, work, r.Name, 10, true)
			r.Status = r.res.Status
		}(r)
	}
	wg.Wait()
	discharged, sat, confirmed := 0, 0, 0
	for _, r := range results {
		switch r.Status {
		case "unsat":
			discharged++
		case "sat":
			sat++
			path := writeReplay(cfg, eng, r, true)
			var rep map[string]interface{}
			loadJSON(path, &rep)
			st, _ := rep["replay_status"].(string)
			if strings.HasPrefix(st, "reproduced") {
				confirmed++
				keep := filepath.Join(verif, "replays", "SWEEP")
				os.MkdirAll(keep, 0o755)
				dst := filepath.Join(keep, filepath.Base(path))
				b, _ := os.ReadFile(path)
				os.WriteFile(dst, b, 0o644)
				fmt.Printf("CONFIRMED %s at %s: %s (replay %s)\n", r.Name, r.Where, r.Text, dst)
			} else {
				fmt.Printf("model-not-confirmed %s at %s [%s]\n", r.Name, r.Where, st)
			}
		}
	}
	fmt.Printf("sweep: discharged=%d models=%d confirmed-on-real-code=%d undecided=%d\n", discharged, sat, confirmed, len(results)-discharged-sat)
	return 0
}

func allFunctions(eng *Engine) map[*ssa.Function]bool {
	out := map[*ssa.Function]bool{}
	for _, p := range eng.prog.AllPackages() {
		for _, m := range p.Members {
			switch x := m.(type) {
			case *ssa.Function:
				out[x] = true
			case *ssa.Type:
				for _, t := range []interface{ NumMethods() int }{} {
					_ = t
				}
				mset := eng.prog.MethodSets.MethodSet(x.Type())
				for i := 0; i < mset.Len(); i++ {
					if f := eng.prog.MethodValue(mset.At(i)); f != nil {
						out[f] = true
					}
				}
				pmset := eng.prog.MethodSets.MethodSet(typesPointer(x.Type()))
				for i := 0; i < pmset.Len(); i++ {
					if f := eng.prog.MethodValue(pmset.At(i)); f != nil {
						out[f] = true
					}
				}
			}
		}
	}
	return out
}

func typesPointer(t types.Type) types.Type { return types.NewPointer(t) }
