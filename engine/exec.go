package govc

import (
	"fmt"
	"go/token"
	"go/types"
	"os"
	"sort"
	"strings"

	"golang.org/x/tools/go/ssa"
)

// Val is a symbolic value: *Term, Tuple, *Addr, *Closure, *FuncRef.
type Val interface{}
type Tuple []Val

type Closure struct {
	Fn       *ssa.Function
	Bindings []Val
}
type FuncRef struct{ Fn *ssa.Function }

const (
	aLocal = iota
	aHeap  // root is heap[Key][Ref] (field map, pointer cell)
	aElem  // root is heap[Key][Ref][Idx]
	aGlobal
)

type PathStep struct {
	IsIndex  bool
	Index    *Term // for arrays
	Field    int
	Struct   *types.Struct
	StructT  types.Type
	ElemType types.Type
}

type Addr struct {
	Kind     int
	Alloc    *ssa.Alloc
	Ref      *Term
	Key      string
	Idx      *Term
	RootType types.Type
	Path     []PathStep
	Type     types.Type // pointee type after path
}

type State struct {
	reach *Term
	cells map[*ssa.Alloc]*Term
	heap  map[string]*Term
	rec   *recInfo
}

type recInfo struct{ keys []string }

func (s *State) clone() *State {
	n := &State{reach: s.reach, cells: make(map[*ssa.Alloc]*Term, len(s.cells)), heap: make(map[string]*Term, len(s.heap))}
	for k, v := range s.cells {
		n.cells[k] = v
	}
	for k, v := range s.heap {
		n.heap[k] = v
	}
	return n
}

type Obligation struct {
	Name  string
	Kind  string // post inv-init inv-pres call-pre guard safety fieldguard lemma const cover decreases
	Fn    string
	NHyps int // number of hypotheses (prefix of fc.hyps) in force
	Reach *Term
	Goal  *Term
	Where string
	Text  string
	fc    *FnCtx
	Extra []*Term // additional hypotheses specific to the obligation
	Cover bool    // satisfiable expected (vacuity check)
}

type loopInfo struct {
	head      *ssa.BasicBlock
	blocks    map[*ssa.BasicBlock]bool
	ordinal   int
	pos       token.Pos
	modCells  map[*ssa.Alloc]bool
	modKeys   map[string]bool
	headState *State // state right after havoc (per pass)
}

type FnCtx struct {
	eng   *Engine
	fn    *ssa.Function
	con   *Contract
	tb    *TB
	so    *Sorts
	regs  map[ssa.Value]Val
	hyps  []*Term
	obls  []*Obligation
	entry *State
	arith string

	keys     []string          // registered heap keys (stable across passes)
	keySort  map[string]string // key -> SMT sort
	newKey   bool
	loops    map[*ssa.BasicBlock]*loopInfo
	loopList []*loopInfo
	changed  bool // modsets changed in this pass

	unsupported   []string
	notes         map[string]bool // assumptions noted
	params        []*Term
	paramVals     map[string]Val
	pureMode      bool
	retStates     []*State
	retVals       [][]Val
	exit          *State
	exitVals      []Val
	defers        []*deferRec
	calleesUsed   map[string]bool
	cellNames     map[string][]*ssa.Alloc
	curBlock      *ssa.BasicBlock
	curInstr      ssa.Instruction
	escapedRoots  []string
	covers        map[string]*Term
	fieldGuardsOn bool
	guardCount    map[string]int
	globalsNoted  map[string]bool
	iters         map[*ssa.Range]*rangeIter
	pureDefs      map[*ssa.Function]*pureDef
	edges         map[[2]int]*Term
	litText       map[*Term]string
	oblNames      map[string]int
	finalVals     map[string]envVar
	calledNames   map[string]bool // names used in called("...") expressions of this function's contract
	calledPairs   map[[2]string]bool
	calledWith    map[string]calledWithSpec
	eptr          map[string]types.Type // element sorts for which pointers to slice elements are created in this function
	eptrLeaked    map[string]bool
	curClosure    *Closure             // closure being called by contract (for naming its captured variables)
	strIters      map[*ssa.Range]*Term // strings ranged over by rune
	loopDefer     bool                 // some defer statement sits inside a loop
	splitSpec     bool                 // a contract of this function uses splitCount/splitPart: strings.Split gets its axiomatic model
	staleGuards   map[string]string    // guard clauses that could not be elaborated at some site (clause -> message)
	defineDepth   int
	defInfos      map[string]*defineInfo
	curCall       *ssa.CallCommon // the call being modelled by a library model
}

type deferRec struct {
	cond  *Term
	call  *ssa.CallCommon
	args  []Val
	instr *ssa.Defer
}

type unsupportedErr struct{ msg string }

func (fc *FnCtx) unsup(format string, a ...interface{}) {
	msg := fmt.Sprintf(format, a...)
	if fc.curInstr != nil {
		msg += " at " + fc.eng.pos(fc.curInstr.Pos())
	}
	panic(unsupportedErr{msg})
}

func (fc *FnCtx) note(s string) {
	if fc.notes == nil {
		fc.notes = map[string]bool{}
	}
	fc.notes[s] = true
}

// ---------- heap keys

func (fc *FnCtx) regKey(key, sort string) {
	if _, ok := fc.keySort[key]; ok {
		return
	}
	fc.keySort[key] = sort
	fc.keys = append(fc.keys, key)
	fc.newKey = true
}

func (fc *FnCtx) heapGet(st *State, key, sort string) *Term {
	if v, ok := st.heap[key]; ok {
		return v
	}
	fc.regKey(key, sort)
	if st.rec != nil {
		// recording state (body of a defined predicate): heap maps are bound variables
		v := fc.tb.BoundVar("hb!"+key, sort)
		st.heap[key] = v
		st.rec.keys = append(st.rec.keys, key)
		return v
	}
	v := fc.tb.Const("h0!"+key, sort)
	st.heap[key] = v
	if fc.entry != nil && fc.entry != st {
		if _, ok := fc.entry.heap[key]; !ok {
			fc.entry.heap[key] = v
		}
	}
	return v
}

func (fc *FnCtx) heapSet(st *State, key string, v *Term) {
	fc.regKey(key, v.Sort)
	st.heap[key] = v
}

func fieldKey(owner types.Type, field string) string {
	return "H:" + typeName(owner) + "." + field
}

// ---------- assumptions and obligations

func (fc *FnCtx) assume(st *State, t *Term) {
	if isTrue(t) || t.Bound {
		// (facts mentioning a quantifier-bound variable arise when a contract expression is
		// translated under a binder; they cannot be hypotheses)
		return
	}
	fc.hyps = append(fc.hyps, fc.tb.Implies(st.reach, t))
}

func (fc *FnCtx) oblige(st *State, kind, name string, goal *Term, where, text string) *Obligation {
	if fc.pureMode {
		return nil
	}
	// obligation names are unique within a function (a second back edge, a second return of the
	// same effect site ... get a ~n suffix)
	fc.oblNames[name]++
	if n := fc.oblNames[name]; n > 1 {
		name = fmt.Sprintf("%s~%d", name, n)
	}
	o := &Obligation{Name: name, Kind: kind, Fn: fc.fnName(), NHyps: len(fc.hyps), Reach: st.reach, Goal: goal, Where: where, Text: text, fc: fc}
	fc.obls = append(fc.obls, o)
	// after asserting, assume it (standard assert-then-assume)
	fc.assume(st, goal)
	return o
}

func (fc *FnCtx) fnName() string {
	return fc.eng.shortFn(fc.fn)
}

// ---------- main driver

// Run symbolically executes the function and collects obligations. It repeats
// passes until the set of heap keys and loop mod-sets are stable.
func (fc *FnCtx) Run() (err error) {
	defer func() {
		if r := recover(); r != nil {
			if u, ok := r.(unsupportedErr); ok {
				fc.unsupported = append(fc.unsupported, u.msg)
				err = nil
				return
			}
			panic(r)
		}
	}()
	if fc.fn.Blocks == nil {
		fc.unsupported = append(fc.unsupported, "function has no body")
		return nil
	}
	if len(fc.fn.Blocks) > 400 {
		fc.unsupported = append(fc.unsupported, fmt.Sprintf("size cap: %d blocks", len(fc.fn.Blocks)))
		return nil
	}
	fc.findLoops()
	for pass := 0; pass < 12; pass++ {
		fc.resetPass()
		fc.execAll()
		if !fc.newKey && !fc.changed {
			return nil
		}
	}
	fc.unsupported = append(fc.unsupported, "mod-set inference did not converge")
	return nil
}

func (fc *FnCtx) resetPass() {
	fc.tb = NewTB()
	fc.tb.Prelude()
	fc.so = NewSorts(fc.tb)
	fc.regs = map[ssa.Value]Val{}
	fc.hyps = nil
	fc.obls = nil
	fc.newKey = false
	fc.changed = false
	fc.retStates = nil
	fc.retVals = nil
	fc.defers = nil
	fc.covers = map[string]*Term{}
	fc.calleesUsed = map[string]bool{}
	fc.cellNames = map[string][]*ssa.Alloc{}
	fc.guardCount = map[string]int{}
	fc.staleGuards = nil
	fc.oblNames = map[string]int{}
	fc.defInfos = nil
	fc.eng.resetPure(fc)
}

func (fc *FnCtx) findLoops() {
	fc.loops = map[*ssa.BasicBlock]*loopInfo{}
	fc.loopList = nil
	for _, b := range fc.fn.Blocks {
		for _, s := range b.Succs {
			if s.Dominates(b) {
				li := fc.loops[s]
				if li == nil {
					li = &loopInfo{head: s, blocks: map[*ssa.BasicBlock]bool{s: true}, modCells: map[*ssa.Alloc]bool{}, modKeys: map[string]bool{}}
					fc.loops[s] = li
					fc.loopList = append(fc.loopList, li)
				}
				// natural loop: all nodes that can reach b without going through s
				var stack []*ssa.BasicBlock
				if !li.blocks[b] {
					li.blocks[b] = true
					stack = append(stack, b)
				}
				for len(stack) > 0 {
					x := stack[len(stack)-1]
					stack = stack[:len(stack)-1]
					for _, p := range x.Preds {
						if !li.blocks[p] {
							li.blocks[p] = true
							stack = append(stack, p)
						}
					}
				}
			}
		}
	}
	for _, li := range fc.loopList {
		li.pos = token.NoPos
		for b := range li.blocks {
			for _, in := range b.Instrs {
				if _, isDbg := in.(*ssa.DebugRef); isDbg {
					continue
				}
				if p := in.Pos(); p.IsValid() && (li.pos == token.NoPos || p < li.pos) {
					li.pos = p
				}
			}
		}
	}
	sort.SliceStable(fc.loopList, func(i, j int) bool {
		a, b := fc.loopList[i], fc.loopList[j]
		if a.pos != b.pos {
			return a.pos < b.pos
		}
		return len(a.blocks) > len(b.blocks)
	})
	for i, li := range fc.loopList {
		li.ordinal = i
	}
}

func (fc *FnCtx) isBackEdge(from, to *ssa.BasicBlock) bool {
	return to.Dominates(from)
}

func (fc *FnCtx) execAll() {
	tb := fc.tb
	fn := fc.fn
	// entry state
	st := &State{reach: tb.True(), cells: map[*ssa.Alloc]*Term{}, heap: map[string]*Term{}}
	for _, k := range fc.keys {
		st.heap[k] = tb.Const("h0!"+k, fc.keySort[k])
	}
	fc.entry = st.clone()
	fc.paramVals = map[string]Val{}
	fc.params = nil
	for _, p := range fn.Params {
		v := fc.symbolicParam(p.Name(), p.Type(), st)
		fc.regs[p] = v
		fc.paramVals[p.Name()] = v
	}
	for i, fv := range fn.FreeVars {
		// free variables are pointers to captured cells
		r := tb.Const(fmt.Sprintf("fv!%d!%s", i, fv.Name()), "Ref")
		fc.regs[fv] = r
		fc.assume(st, tb.Not(tb.Eq(r, tb.Const("null", "Ref"))))
	}
	fc.entry = st.clone()
	// contract preconditions
	if fc.con != nil && !fc.pureMode {
		env := fc.entryEnv(st)
		for _, c := range fc.con.Requires {
			fc.assume(st, fc.transBool(env, c))
		}
		for _, c := range fc.con.Assumes {
			fc.assume(st, fc.transBool(env, c))
			fc.note("assumed at entry of " + fc.fnName() + ": " + c.Text)
		}
	}
	// topological order ignoring back edges
	order := fc.topoOrder()
	out := map[*ssa.BasicBlock]*State{} // state at end of block
	edge := map[[2]int]*Term{}          // (from,to) -> edge condition incl. reach
	fc.edges = edge
	for _, b := range order {
		var in *State
		if b.Index == 0 {
			in = st
		} else {
			var preds []*State
			for _, p := range b.Preds {
				if fc.isBackEdge(p, b) {
					continue
				}
				ps := out[p]
				if ps == nil {
					continue // unreachable predecessor (e.g. after panic)
				}
				c := edge[[2]int{p.Index, b.Index}]
				s2 := ps.clone()
				s2.reach = c
				preds = append(preds, s2)
			}
			if len(preds) == 0 {
				continue
			}
			in = fc.merge(preds, fmt.Sprintf("b%d", b.Index))
		}
		if li := fc.loops[b]; li != nil {
			in = fc.enterLoop(li, in)
		}
		fc.curBlock = b
		res := fc.execBlock(b, in)
		if res == nil {
			continue // block ended in panic / return
		}
		out[b] = res.st
		for i, s := range b.Succs {
			var c *Term
			switch {
			case res.cond == nil:
				c = res.st.reach
			case i == 0:
				c = tb.And(res.st.reach, res.cond)
			default:
				c = tb.And(res.st.reach, tb.Not(res.cond))
			}
			// name edge conditions to keep terms small
			k := [2]int{b.Index, s.Index}
			if prev, ok := edge[k]; ok {
				c = tb.Or(prev, c)
			}
			edge[k] = c
			if fc.isBackEdge(b, s) {
				s2 := res.st.clone()
				s2.reach = c
				fc.closeLoop(fc.loops[s], s2)
			}
		}
	}
	fc.finish()
}

func (fc *FnCtx) topoOrder() []*ssa.BasicBlock {
	fn := fc.fn
	visited := make([]bool, len(fn.Blocks))
	var post []*ssa.BasicBlock
	var dfs func(b *ssa.BasicBlock)
	dfs = func(b *ssa.BasicBlock) {
		visited[b.Index] = true
		for _, s := range b.Succs {
			if fc.isBackEdge(b, s) {
				continue
			}
			if !visited[s.Index] {
				dfs(s)
			}
		}
		post = append(post, b)
	}
	dfs(fn.Blocks[0])
	for i, j := 0, len(post)-1; i < j; i, j = i+1, j-1 {
		post[i], post[j] = post[j], post[i]
	}
	return post
}

func (fc *FnCtx) merge(preds []*State, hint string) *State {
	tb := fc.tb
	if len(preds) == 1 {
		return preds[0]
	}
	var conds []*Term
	for _, p := range preds {
		conds = append(conds, p.reach)
	}
	res := &State{reach: tb.Or(conds...), cells: map[*ssa.Alloc]*Term{}, heap: map[string]*Term{}}
	// cells present in all preds
	for _, a := range sortedAllocs(preds[0].cells) {
		ok := true
		for _, p := range preds[1:] {
			if _, has := p.cells[a]; !has {
				ok = false
				break
			}
		}
		if !ok {
			continue
		}
		v := preds[len(preds)-1].cells[a]
		for i := len(preds) - 2; i >= 0; i-- {
			v = tb.Ite(preds[i].reach, preds[i].cells[a], v)
		}
		res.cells[a] = v
	}
	keys := map[string]bool{}
	for _, p := range preds {
		for k := range p.heap {
			keys[k] = true
		}
	}
	for _, k := range sortedStrs(keys) {
		srt := fc.keySort[k]
		v := fc.heapGet(preds[len(preds)-1], k, srt)
		for i := len(preds) - 2; i >= 0; i-- {
			v = tb.Ite(preds[i].reach, fc.heapGet(preds[i], k, srt), v)
		}
		res.heap[k] = v
	}
	return res
}

// enterLoop: assert invariants on entry, havoc the mod-set, assume invariants.
func (fc *FnCtx) enterLoop(li *loopInfo, in *State) *State {
	tb := fc.tb
	var spec *LoopSpec
	if fc.con != nil {
		spec = fc.con.Loops[li.ordinal]
	}
	if spec != nil && !fc.pureMode {
		env := fc.loopEnv(in, li)
		for j, c := range spec.Invariants {
			g := fc.transBool(env, c)
			fc.oblige(in, "inv-init", fmt.Sprintf("%s#inv-init#L%d.%d", fc.fnName(), li.ordinal, j), g, c.Where, c.Text)
		}
		if spec.Frame {
			fc.oblige(in, "inv-init", fmt.Sprintf("%s#inv-init#L%d.frame", fc.fnName(), li.ordinal), fc.loopFrame(li, in), spec.FrameWhere, "loop frame: objects allocated at entry keep their contents")
		}
	}
	if fc.pureMode {
		fc.unsup("loop in pure function")
	}
	hs := in.clone()
	for _, a := range sortedAllocs(li.modCells) {
		if old, ok := hs.cells[a]; ok {
			nv := tb.Fresh(fmt.Sprintf("L%d!%s", li.ordinal, cellName(a)), old.Sort)
			hs.cells[a] = nv
			fc.assume(hs, fc.so.InRange(nv, a.Type().(*types.Pointer).Elem()))
			fc.assumeWellFormed(hs, nv, a.Type().(*types.Pointer).Elem())
		}
	}
	var mk []string
	for k := range li.modKeys {
		mk = append(mk, k)
	}
	sort.Strings(mk)
	for _, k := range mk {
		prev := hs.heap[k]
		hs.heap[k] = tb.Fresh(fmt.Sprintf("L%d!%s", li.ordinal, k), fc.keySort[k])
		if k == "alloc" && prev != nil {
			// allocation only grows: whatever was allocated before the loop still is
			r := tb.BoundVar("r", "Ref")
			fc.assume(hs, tb.Quant(true, []*Term{r}, tb.Implies(tb.Select(prev, r), tb.Select(hs.heap[k], r)), tb.Select(hs.heap[k], r)))
		}
	}
	li.headState = hs.clone()
	if spec != nil {
		env := fc.loopEnv(hs, li)
		for _, c := range spec.Invariants {
			fc.assume(hs, fc.transBool(env, c))
		}
		if spec.Frame && !fc.pureMode {
			fc.assume(hs, fc.loopFrame(li, hs))
		}
	}
	return hs
}

// closeLoop: assert invariants on a back edge; update mod-sets.
func (fc *FnCtx) closeLoop(li *loopInfo, st *State) {
	var spec *LoopSpec
	if fc.con != nil {
		spec = fc.con.Loops[li.ordinal]
	}
	// mod-set inference: anything that differs from the head state
	for a, v := range st.cells {
		if hv, ok := li.headState.cells[a]; ok && hv != v && !li.modCells[a] {
			li.modCells[a] = true
			fc.changed = true
		}
	}
	for k, v := range st.heap {
		hv, ok := li.headState.heap[k]
		if !ok {
			// first touched inside the loop: at the head it still had its entry value
			hv, ok = fc.tb.Const("h0!"+k, fc.keySort[k]), true
		}
		if fc.eng.constGlobalKey(k) {
			continue
		}
		if (!ok || hv != v) && !li.modKeys[k] {
			if os.Getenv("GOVC_DEBUG") != "" {
				fmt.Fprintf(os.Stderr, "modset %s L%d += %s (head %s, now %s)\n", fc.fnName(), li.ordinal, k, fc.tb.Show(hv)[:min(80, len(fc.tb.Show(hv)))], fc.tb.Show(v)[:min(80, len(fc.tb.Show(v)))])
			}
			li.modKeys[k] = true
			fc.changed = true
		}
	}
	if spec != nil && !fc.pureMode {
		env := fc.loopEnv(st, li)
		for j, c := range spec.Invariants {
			g := fc.transBool(env, c)
			fc.oblige(st, "inv-pres", fmt.Sprintf("%s#inv-pres#L%d.%d", fc.fnName(), li.ordinal, j), g, c.Where, c.Text)
		}
		for j, c := range spec.Steps {
			senv := fc.loopEnv(st, li)
			senv.oldEnv = fc.loopEnv(li.headState, li)
			g := fc.transBool(senv, c)
			fc.oblige(st, "inv-pres", fmt.Sprintf("%s#step#L%d.%d", fc.fnName(), li.ordinal, j), g, c.Where, c.Text)
		}
		if spec.Frame {
			fc.oblige(st, "inv-pres", fmt.Sprintf("%s#inv-pres#L%d.frame", fc.fnName(), li.ordinal), fc.loopFrame(li, st), spec.FrameWhere, "loop frame: objects allocated at entry keep their contents")
		}
		if spec.Decreases != nil {
			henv := fc.loopEnv(li.headState, li)
			before, _ := fc.transExpr(henv, spec.Decreases.Expr)
			after, _ := fc.transExpr(env, spec.Decreases.Expr)
			bt, at := before.(*Term), after.(*Term)
			g := tb2(fc.tb).And(fc.tb.Lt(at, bt), fc.tb.Ge(bt, fc.tb.Int(0)))
			fc.oblige(st, "decreases", fmt.Sprintf("%s#decreases#L%d", fc.fnName(), li.ordinal), g, spec.Decreases.Where, spec.Decreases.Text)
		}
	}
}

func tb2(tb *TB) *TB { return tb }

func cellName(a *ssa.Alloc) string {
	if a.Comment != "" {
		return a.Comment
	}
	return "result"
}

// finish: merge return states and check postconditions.
func (fc *FnCtx) finish() {
	if len(fc.retStates) == 0 {
		return
	}
	tb := fc.tb
	exit := fc.merge(fc.retStates, "exit")
	nres := len(fc.retVals[0])
	var vals []Val
	for r := 0; r < nres; r++ {
		v := fc.retVals[len(fc.retVals)-1][r]
		for i := len(fc.retVals) - 2; i >= 0; i-- {
			v = fc.iteVal(fc.retStates[i].reach, fc.retVals[i][r], v)
		}
		vals = append(vals, v)
	}
	fc.exit = exit
	fc.exitVals = vals
	if fc.con == nil || fc.pureMode {
		return
	}
	// final values of named non-escaping locals (zero where not yet declared)
	fc.finalVals = map[string]envVar{}
	for _, name := range sortedStrs(fc.cellNames) {
		allocs := fc.cellNames[name]
		if len(allocs) != 1 {
			continue
		}
		a := allocs[0]
		et := a.Type().(*types.Pointer).Elem()
		if a.Heap {
			// an address-taken struct local: final(x) is the pointer to it (fields read at the exit heap)
			if _, isS := isStructType(et); isS {
				if r, ok := fc.regs[a].(*Term); ok {
					fc.finalVals[name] = envVar{r, a.Type()}
				}
			} else if ad, ok := fc.regs[a].(*Addr); ok && ad.Kind == aHeap && len(ad.Path) == 0 && strings.HasPrefix(ad.Key, "C:") {
				// an address-taken local of scalar/reference type: its cell content in the exit heap
				srt := fc.so.Sort(et)
				m := fc.heapGet(exit, ad.Key, ArraySort("Ref", srt))
				fc.finalVals[name] = envVar{tb.Select(m, ad.Ref), et}
			}
			continue
		}
		val := func(s *State) *Term {
			if v, ok := s.cells[a]; ok {
				return v
			}
			return fc.so.Zero(et)
		}
		v := val(fc.retStates[len(fc.retStates)-1])
		for i := len(fc.retStates) - 2; i >= 0; i-- {
			v = tb.Ite(fc.retStates[i].reach, val(fc.retStates[i]), v)
		}
		fc.finalVals[name] = envVar{v, et}
	}
	// final(idxN): the hidden index cell of range-over-slice loop N at the return (equal to the length
	// of the ranged slice after a complete traversal, smaller after a break or an early return)
	for _, li := range fc.loopList {
		if a := fc.rangeIndexCell(li.ordinal); a != nil {
			val := func(s *State) *Term {
				if v, ok := s.cells[a]; ok {
					return v
				}
				return tb.Int(-1)
			}
			v := val(fc.retStates[len(fc.retStates)-1])
			for i := len(fc.retStates) - 2; i >= 0; i-- {
				v = tb.Ite(fc.retStates[i].reach, val(fc.retStates[i]), v)
			}
			fc.finalVals[fmt.Sprintf("idx%d", li.ordinal)] = envVar{v, types.Typ[types.Int]}
		}
	}
	env := fc.exitEnv(exit, vals)
	for j, c := range fc.con.Ensures {
		g := fc.transBool(env, c)
		name := fmt.Sprintf("%s#post#%d", fc.fnName(), j)
		if c.Label != "" {
			name = fmt.Sprintf("%s#post#%s", fc.fnName(), c.Label)
		}
		fc.oblige(exit, "post", name, g, c.Where, c.Text)
	}
	_ = tb
}

func (fc *FnCtx) iteVal(c *Term, a, b Val) Val {
	at, aok := a.(*Term)
	bt, bok := b.(*Term)
	if aok && bok {
		return fc.tb.Ite(c, at, bt)
	}
	if a == b {
		return a
	}
	fc.unsup("cannot merge non-term values")
	return nil
}

// symbolicParam creates the symbolic value of a parameter and assumes its type invariant.
func (fc *FnCtx) symbolicParam(name string, t types.Type, st *State) Val {
	srt := fc.so.Sort(t)
	v := fc.tb.Const("p!"+name, srt)
	fc.params = append(fc.params, v)
	fc.assume(st, fc.so.InRange(v, t))
	fc.assumeWellFormed(st, v, t)
	return v
}

// assumeWellFormed: structural type invariants of values (slice header sanity, int ranges in structs).
func (fc *FnCtx) assumeWellFormed(st *State, v *Term, t types.Type) {
	tb := fc.tb
	t = types.Unalias(t)
	if isTimeTime(t) {
		return
	}
	switch u := t.Underlying().(type) {
	case *types.Slice:
		ln := tb.App("s_len", "Int", v)
		cp := tb.App("s_cap", "Int", v)
		off := tb.App("s_off", "Int", v)
		arr := tb.App("s_arr", "Ref", v)
		fc.assume(st, tb.And(tb.Le(tb.Int(0), ln), tb.Le(ln, cp), tb.Le(tb.Int(0), off),
			tb.Implies(tb.Eq(arr, tb.Const("null", "Ref")), tb.And(tb.Eq(cp, tb.Int(0)), tb.Eq(off, tb.Int(0))))))
		if !fc.pureMode {
			al := fc.heapGet(st, "alloc", ArraySort("Ref", "Bool"))
			_ = al
			fc.assume(st, fc.alive(st, arr))
		}
	case *types.Pointer, *types.Map:
		if !fc.pureMode && v.Sort == "Ref" {
			al := fc.heapGet(st, "alloc", ArraySort("Ref", "Bool"))
			_ = al
			fc.assume(st, fc.alive(st, v))
		}
	case *types.Struct:
		srt := fc.so.Sort(t)
		for i := 0; i < u.NumFields(); i++ {
			f := u.Field(i)
			ft := f.Type()
			switch types.Unalias(ft).Underlying().(type) {
			case *types.Basic, *types.Slice, *types.Struct:
				fv := tb.App(fc.so.FieldAcc(srt, f.Name(), i), fc.so.Sort(ft), v)
				fc.assume(st, fc.so.InRange(fv, ft))
				fc.assumeWellFormed(st, fv, ft)
			}
		}
	}
}

func (e *Engine) pos(p token.Pos) string {
	if !p.IsValid() {
		return "?"
	}
	ps := e.fset.Position(p)
	return fmt.Sprintf("%s:%d", strings.TrimPrefix(ps.Filename, "/repo/"), ps.Line)
}

// guardGoal elaborates a guard condition at a site; a clause that cannot be elaborated there (e.g. it
// names a local that is not in scope at this site) is recorded as stale and skipped, so that the
// function's other obligations are still checked.
func (fc *FnCtx) guardGoal(env *Env, c *Clause) (goal *Term) {
	defer func() {
		if r := recover(); r != nil {
			u, ok := r.(unsupportedErr)
			if !ok || !strings.HasPrefix(u.msg, "contract-stale") {
				panic(r)
			}
			if fc.staleGuards == nil {
				fc.staleGuards = map[string]string{}
			}
			fc.staleGuards[c.Text] = u.msg
			goal = nil
		}
	}()
	return fc.transBool(env, c)
}

// sortedAllocs / sortedStrs: deterministic iteration orders (VC text and hashes must not depend on Go's
// map iteration order)
func sortedAllocs[V any](m map[*ssa.Alloc]V) []*ssa.Alloc {
	out := make([]*ssa.Alloc, 0, len(m))
	for a := range m {
		out = append(out, a)
	}
	sort.Slice(out, func(i, j int) bool {
		if out[i].Pos() != out[j].Pos() {
			return out[i].Pos() < out[j].Pos()
		}
		return out[i].Name() < out[j].Name()
	})
	return out
}

func sortedStrs[V any](m map[string]V) []string {
	out := make([]string, 0, len(m))
	for k := range m {
		out = append(out, k)
	}
	sort.Strings(out)
	return out
}
