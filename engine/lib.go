package govc

// Library models: Go-coded semantics of standard-library (and a few snapd helper) functions,
// usable both at call sites in code and inside contract expressions. Every model is a trusted
// assumption (T4) and is listed in the evidence when used.

type libFn func(fc *FnCtx, st *State, args []Val) Val

var libModels = map[string]libFn{}
var libReads = map[string]map[string]string{} // heap keys a model reads
var libWrites = map[string][]string{}         // heap keys a model writes
var libImpure = map[string]bool{}             // result is not a function of the arguments

func init() {
	errT := "Iface"
	// fmt.Errorf / errors.New: fresh non-nil error
	freshErr := func(fc *FnCtx, st *State, args []Val) Val {
		fc.usedLib("fmt.Errorf/errors.New: returns a fresh non-nil error")
		for _, a := range args {
			fc.termNoEscape(a)
		}
		e := fc.tb.Fresh("err", errT)
		fc.assume(st, fc.tb.Not(fc.tb.Eq(e, fc.tb.Const("inil", "Iface"))))
		return e
	}
	libModels["fmt.Errorf"] = freshErr
	libModels["errors.New"] = freshErr
	libImpure["fmt.Errorf"] = true
	libImpure["errors.New"] = true
	freshStr := func(fc *FnCtx, st *State, args []Val) Val {
		fc.usedLib("fmt.Sprintf: returns an unconstrained string")
		for _, a := range args {
			fc.termNoEscape(a)
		}
		return fc.tb.Fresh("sprintf", "Str")
	}
	libModels["fmt.Sprintf"] = freshStr
	libModels["fmt.Sprint"] = freshStr
	libImpure["fmt.Sprintf"] = true
	libImpure["fmt.Sprint"] = true

	// ---- strings
	libModels["strings.HasPrefix"] = func(fc *FnCtx, st *State, args []Val) Val {
		fc.usedLib("strings.HasPrefix(s,p) <=> len(p)<=len(s) && s[:len(p)]==p")
		return fc.strHasPrefix(fc.term(args[0]), fc.term(args[1]))
	}
	libModels["strings.HasSuffix"] = func(fc *FnCtx, st *State, args []Val) Val {
		fc.usedLib("strings.HasSuffix(s,p) <=> len(p)<=len(s) && s[len(s)-len(p):]==p")
		tb := fc.tb
		s, p := fc.term(args[0]), fc.term(args[1])
		ls, lp := tb.App("s_len", "Int", s), tb.App("s_len", "Int", p)
		return tb.And(tb.Le(lp, ls), tb.Eq(tb.App("s_sub", "Str", s, tb.Sub(ls, lp), ls), p))
	}
	libModels["strings.LastIndexByte"] = func(fc *FnCtx, st *State, args []Val) Val {
		fc.usedLib("strings.LastIndexByte: last position of the byte or -1")
		tb := fc.tb
		fn := tb.DeclFun("strings_LastIndexByte", []string{"Str", "Int"}, "Int")
		s := tb.BoundVar("s", "Str")
		c := tb.BoundVar("c", "Int")
		k := tb.BoundVar("k", "Int")
		r := tb.App(fn, "Int", s, c)
		ln := tb.App("s_len", "Int", s)
		tb.AddAxiom("strings.LastIndexByte", tb.Quant(true, []*Term{s, c}, tb.And(
			tb.Le(tb.Int(-1), r), tb.Lt(r, ln),
			tb.Implies(tb.Ge(r, tb.Int(0)), tb.Eq(tb.App("s_at", "Int", s, r), c)),
			tb.Quant(true, []*Term{k}, tb.Implies(tb.And(tb.Lt(r, k), tb.Lt(k, ln)), tb.Not(tb.Eq(tb.App("s_at", "Int", s, k), c))), tb.App("s_at", "Int", s, k))), r))
		return tb.App(fn, "Int", fc.term(args[0]), fc.term(args[1]))
	}
	libModels["strings.IndexByte"] = func(fc *FnCtx, st *State, args []Val) Val {
		fc.usedLib("strings.IndexByte: first position of the byte or -1")
		tb := fc.tb
		fn := tb.DeclFun("strings_IndexByte", []string{"Str", "Int"}, "Int")
		s := tb.BoundVar("s", "Str")
		c := tb.BoundVar("c", "Int")
		k := tb.BoundVar("k", "Int")
		r := tb.App(fn, "Int", s, c)
		ln := tb.App("s_len", "Int", s)
		tb.AddAxiom("strings.IndexByte", tb.Quant(true, []*Term{s, c}, tb.And(
			tb.Le(tb.Int(-1), r), tb.Lt(r, ln),
			tb.Implies(tb.Ge(r, tb.Int(0)), tb.Eq(tb.App("s_at", "Int", s, r), c)),
			tb.Quant(true, []*Term{k}, tb.Implies(tb.And(tb.Le(tb.Int(0), k), tb.Lt(k, tb.Ite(tb.Ge(r, tb.Int(0)), r, ln))), tb.Not(tb.Eq(tb.App("s_at", "Int", s, k), c))), tb.App("s_at", "Int", s, k))), r))
		return tb.App(fn, "Int", fc.term(args[0]), fc.term(args[1]))
	}
	libModels["strings.Contains"] = func(fc *FnCtx, st *State, args []Val) Val {
		fc.usedLib("strings.Contains: uninterpreted predicate; Contains(s,\"\") and Contains(s,s) hold")
		tb := fc.tb
		fn := tb.DeclFun("strings_Contains", []string{"Str", "Str"}, "Bool")
		s := tb.BoundVar("s", "Str")
		tb.AddAxiom("strings.Contains-refl", tb.Quant(true, []*Term{s}, tb.App(fn, "Bool", s, s), tb.App(fn, "Bool", s, s)))
		return tb.App(fn, "Bool", fc.term(args[0]), fc.term(args[1]))
	}
	libModels["strings.TrimSuffix"] = func(fc *FnCtx, st *State, args []Val) Val {
		fc.usedLib("strings.TrimSuffix")
		tb := fc.tb
		s, p := fc.term(args[0]), fc.term(args[1])
		ls, lp := tb.App("s_len", "Int", s), tb.App("s_len", "Int", p)
		has := tb.And(tb.Le(lp, ls), tb.Eq(tb.App("s_sub", "Str", s, tb.Sub(ls, lp), ls), p))
		return tb.Ite(has, tb.App("s_sub", "Str", s, tb.Int(0), tb.Sub(ls, lp)), s)
	}
	libModels["strings.TrimPrefix"] = func(fc *FnCtx, st *State, args []Val) Val {
		fc.usedLib("strings.TrimPrefix")
		tb := fc.tb
		s, p := fc.term(args[0]), fc.term(args[1])
		ls, lp := tb.App("s_len", "Int", s), tb.App("s_len", "Int", p)
		return tb.Ite(fc.strHasPrefix(s, p), tb.App("s_sub", "Str", s, lp, ls), s)
	}
	// ---- strconv
	libModels["strconv.Itoa"] = func(fc *FnCtx, st *State, args []Val) Val {
		fc.usedLib("strconv.Itoa: injective; Atoi(Itoa(n)) == n")
		tb := fc.tb
		itoa := tb.DeclFun("strconv_Itoa", []string{"Int"}, "Str")
		atoiV := tb.DeclFun("strconv_AtoiVal", []string{"Str"}, "Int")
		atoiOK := tb.DeclFun("strconv_AtoiOK", []string{"Str"}, "Bool")
		n := tb.BoundVar("n", "Int")
		s := tb.App(itoa, "Str", n)
		c0 := tb.App("s_at", "Int", s, tb.Int(0))
		tb.AddAxiom("strconv.Itoa-inv", tb.Quant(true, []*Term{n}, tb.And(tb.App(atoiOK, "Bool", s), tb.Eq(tb.App(atoiV, "Int", s), n), tb.Gt(tb.App("s_len", "Int", s), tb.Int(0)),
			tb.Ite(tb.Ge(n, tb.Int(0)), tb.And(tb.Le(tb.Int(48), c0), tb.Le(c0, tb.Int(57))), tb.Eq(c0, tb.Int(45)))), s))
		return tb.App(itoa, "Str", fc.term(args[0]))
	}
	libModels["strconv.Atoi"] = func(fc *FnCtx, st *State, args []Val) Val {
		fc.usedLib("strconv.Atoi: (AtoiVal(s), nil) if AtoiOK(s) else (0, err)")
		tb := fc.tb
		atoiV := tb.DeclFun("strconv_AtoiVal", []string{"Str"}, "Int")
		atoiOK := tb.DeclFun("strconv_AtoiOK", []string{"Str"}, "Bool")
		s := fc.term(args[0])
		ok := tb.App(atoiOK, "Bool", s)
		e := tb.Fresh("atoierr", "Iface")
		fc.assume(st, tb.Eq(tb.Eq(e, tb.Const("inil", "Iface")), ok))
		v := tb.Ite(ok, tb.App(atoiV, "Int", s), tb.Int(0))
		fc.assume(st, tb.And(tb.Le(tb.BigInt("-9223372036854775808"), v), tb.Le(v, tb.BigInt("9223372036854775807"))))
		// an accepted string is non-empty and starts with a digit or sign
		c0 := tb.App("s_at", "Int", s, tb.Int(0))
		fc.assume(st, tb.Implies(ok, tb.And(tb.Gt(tb.App("s_len", "Int", s), tb.Int(0)),
			tb.Or(tb.And(tb.Le(tb.Int(48), c0), tb.Le(c0, tb.Int(57))), tb.Eq(c0, tb.Int(43)), tb.Eq(c0, tb.Int(45))))))
		return Tuple{v, e}
	}
	libImpure["strconv.Atoi"] = true
	// ---- time
	libModels["(time.Time).Before"] = func(fc *FnCtx, st *State, args []Val) Val {
		fc.usedLib("time.Time modelled as a mathematical instant (A-time)")
		return fc.tb.Lt(fc.term(args[0]), fc.term(args[1]))
	}
	libModels["(time.Time).After"] = func(fc *FnCtx, st *State, args []Val) Val {
		fc.usedLib("time.Time modelled as a mathematical instant (A-time)")
		return fc.tb.Gt(fc.term(args[0]), fc.term(args[1]))
	}
	libModels["(time.Time).Equal"] = func(fc *FnCtx, st *State, args []Val) Val {
		fc.usedLib("time.Time modelled as a mathematical instant (A-time)")
		return fc.tb.Eq(fc.term(args[0]), fc.term(args[1]))
	}
	libModels["(time.Time).IsZero"] = func(fc *FnCtx, st *State, args []Val) Val {
		fc.usedLib("time.Time modelled as a mathematical instant (A-time)")
		return fc.tb.Eq(fc.term(args[0]), fc.tb.Const("time_zero", "Int"))
	}
	libModels["(time.Time).Add"] = func(fc *FnCtx, st *State, args []Val) Val {
		fc.usedLib("time.Time.Add is mathematical addition (no saturation, A-time)")
		return fc.tb.Add(fc.term(args[0]), fc.term(args[1]))
	}
	libModels["(time.Time).Sub"] = func(fc *FnCtx, st *State, args []Val) Val {
		fc.usedLib("time.Time.Sub is mathematical subtraction (no saturation, A-time)")
		return fc.tb.Sub(fc.term(args[0]), fc.term(args[1]))
	}
	libModels["time.Now"] = func(fc *FnCtx, st *State, args []Val) Val {
		fc.usedLib("time.Now returns an arbitrary non-zero instant")
		t := fc.tb.Fresh("now", "Int")
		fc.assume(st, fc.tb.Not(fc.tb.Eq(t, fc.tb.Const("time_zero", "Int"))))
		return t
	}
	libImpure["time.Now"] = true
	libModels["(time.Time).UTC"] = func(fc *FnCtx, st *State, args []Val) Val { return fc.term(args[0]) }
	libModels["(time.Duration).Seconds"] = nil
	delete(libModels, "(time.Duration).Seconds")
}

func (fc *FnCtx) usedLib(s string) {
	fc.note("library model: " + s)
}

// termNoEscape converts a value to a term without treating interior pointers as escaping
// (used for heap-pure library calls).
func (fc *FnCtx) termNoEscape(v Val) *Term {
	if a, ok := v.(*Addr); ok && !(a.Kind == aHeap && len(a.Path) == 0) {
		return fc.tb.Fresh("iptr", "Ref")
	}
	return fc.term(v)
}

func (fc *FnCtx) strHasPrefix(s, p *Term) *Term {
	tb := fc.tb
	ls, lp := tb.App("s_len", "Int", s), tb.App("s_len", "Int", p)
	return tb.And(tb.Le(lp, ls), tb.Eq(tb.App("s_sub", "Str", s, tb.Int(0), lp), p))
}
