package govc

import (
	"bytes"
	"fmt"
	"go/ast"
	"go/constant"
	"go/printer"
	"go/token"
	"go/types"
	"strings"

	"golang.org/x/tools/go/ssa"
)

// globalInit finds the initialiser expression of a package-level variable.
func (e *Engine) globalInit(g *ssa.Global) (ast.Expr, *types.Info) {
	if g.Pkg == nil {
		return nil, nil
	}
	pkg := e.byPath[g.Pkg.Pkg.Path()]
	if pkg == nil {
		return nil, nil
	}
	for _, f := range pkg.Syntax {
		for _, d := range f.Decls {
			gd, ok := d.(*ast.GenDecl)
			if !ok || gd.Tok != token.VAR {
				continue
			}
			for _, s := range gd.Specs {
				vs := s.(*ast.ValueSpec)
				for i, n := range vs.Names {
					if n.Name == g.Name() && pkg.TypesInfo.Defs[n] == g.Object() && i < len(vs.Values) {
						return vs.Values[i], pkg.TypesInfo
					}
				}
			}
		}
	}
	return nil, nil
}

// constFuncGlobal: a package-level func variable initialised with a named function and never
// stored to outside init (in non-test code) denotes that function.
func (e *Engine) constFuncGlobal(fc *FnCtx, g *ssa.Global) *ssa.Function {
	if g.Pkg == nil {
		return nil
	}
	if _, ok := types.Unalias(g.Type().(*types.Pointer).Elem()).Underlying().(*types.Signature); !ok {
		return nil
	}
	e.scanGlobals(g.Pkg)
	if e.globalStores[g] {
		return nil
	}
	init, info := e.globalInit(g)
	if init == nil {
		return nil
	}
	var obj types.Object
	switch x := init.(type) {
	case *ast.Ident:
		obj = info.Uses[x]
	case *ast.SelectorExpr:
		obj = info.Uses[x.Sel]
	}
	f, ok := obj.(*types.Func)
	if !ok {
		return nil
	}
	fn := e.prog.FuncValue(f)
	if fn != nil {
		fc.note("package variable " + g.String() + " denotes " + fn.String() + " (no store outside init in non-test code)")
	}
	return fn
}

// ConstInitCheck: //@ const [props] NAME: <Go expression>  — the initialiser of the package
// variable NAME is textually (after gofmt normalisation) the given expression, and the variable
// is not stored to outside init. A syntactic obligation on the real source.
func (e *Engine) ConstInitCheck(cc *ConstCheck) (name string, ok bool, detail string) {
	text := cc.Clause.Text
	i := strings.Index(text, ":")
	if i < 0 {
		return text, false, "malformed const clause"
	}
	vname := strings.TrimSpace(text[:i])
	want := normSpace(text[i+1:])
	name = strings.TrimPrefix(cc.Pkg, snapdMod+"/") + "." + vname + "#const"
	for _, p := range e.prog.AllPackages() {
		if p.Pkg.Path() != cc.Pkg {
			continue
		}
		g, isG := p.Members[vname].(*ssa.Global)
		if !isG {
			return name, false, "no such package variable"
		}
		e.scanGlobals(p)
		if e.globalStores[g] {
			return name, false, "variable is stored to outside init"
		}
		init, _ := e.globalInit(g)
		if init == nil {
			return name, false, "no initialiser"
		}
		var buf bytes.Buffer
		printer.Fprint(&buf, e.fset, init)
		got := normSpace(buf.String())
		if got != want {
			return name, false, fmt.Sprintf("initialiser is %q, contract says %q", got, want)
		}
		return name, true, ""
	}
	return name, false, "package not loaded"
}

func normSpace(s string) string {
	s = strings.Join(strings.Fields(s), " ")
	s = strings.ReplaceAll(s, ", }", "}")
	s = strings.ReplaceAll(s, ",}", "}")
	s = strings.ReplaceAll(s, "{ ", "{")
	s = strings.ReplaceAll(s, " }", "}")
	return s
}

// scanAllGlobals scans every loaded snapd package for stores to package variables (an exported
// variable may be assigned from another package).
func (e *Engine) scanAllGlobals() {
	if e.allScanned {
		return
	}
	e.allScanned = true
	for _, p := range e.prog.AllPackages() {
		if strings.HasPrefix(p.Pkg.Path(), snapdMod) {
			e.scanGlobals(p)
		}
	}
}

// immutableGlobalFacts: facts about the initial value of a never-reassigned package variable that
// follow from the form of its initialiser: errors.New / fmt.Errorf results are non-nil.
func (fc *FnCtx) immutableGlobalFacts(key string, g *ssa.Global) {
	init, info := fc.eng.globalInit(g)
	if init == nil {
		return
	}
	call, ok := init.(*ast.CallExpr)
	if !ok {
		return
	}
	sel, ok := call.Fun.(*ast.SelectorExpr)
	if !ok {
		return
	}
	f, ok := info.Uses[sel.Sel].(*types.Func)
	if !ok {
		return
	}
	switch f.FullName() {
	case "errors.New", "fmt.Errorf":
		t := g.Type().(*types.Pointer).Elem()
		srt := fc.so.Sort(t)
		if srt != "Iface" {
			return
		}
		fc.regKey(key, srt)
		c := fc.tb.Const("h0!"+key, srt)
		fc.tb.AddAxiom("global "+g.Name()+" non-nil", fc.tb.Not(fc.tb.Eq(c, fc.tb.Const("inil", "Iface"))))
		fc.note("package variable " + g.String() + " is never reassigned and initialised by " + f.FullName() + ": non-nil")
	}
}

// CallersCheck: //@ callers [props] FUNC: F1, F2  — every use of FUNC (static call, or taking its
// value) in the loaded non-test snapd code is inside one of the listed functions of the package.
// A syntactic obligation: it is how "handlers only start from run, run is only called from
// Ensure" is pinned.
func (e *Engine) CallersCheck(cc *ConstCheck) (name string, ok bool, detail string) {
	text := cc.Clause.Text
	i := strings.LastIndex(text, ":")
	if i < 0 {
		return text, false, "malformed callers clause"
	}
	target := strings.TrimSpace(text[:i])
	allowed := map[string]bool{}
	for _, a := range strings.Split(text[i+1:], ",") {
		if a = strings.TrimSpace(a); a != "" {
			allowed[a] = true
		}
	}
	name = strings.TrimPrefix(cc.Pkg, snapdMod+"/") + "." + target + "#callers"
	var tfn *ssa.Function
	for _, con := range []*Contract{{Key: target, Pkg: cc.Pkg}} {
		tfn = e.FindFunc(con)
	}
	if tfn == nil {
		return name, false, "function " + target + " not found"
	}
	var bad []string
	for _, p := range e.prog.AllPackages() {
		if !strings.HasPrefix(p.Pkg.Path(), snapdMod) {
			continue
		}
		seen := map[*ssa.Function]bool{}
		var visit func(fn *ssa.Function)
		visit = func(fn *ssa.Function) {
			if fn == nil || seen[fn] {
				return
			}
			seen[fn] = true
			for _, b := range fn.Blocks {
				for _, in := range b.Instrs {
					for _, op := range in.Operands(nil) {
						if f, isF := (*op).(*ssa.Function); isF && (f == tfn || f.Origin() == tfn) {
							k := funcKey(fn)
							root := fn
							for root.Parent() != nil {
								root = root.Parent()
							}
							if !(fn.Pkg == tfn.Pkg && (allowed[k] || allowed[funcKey(root)])) {
								bad = append(bad, e.shortFn(fn))
							}
						}
					}
				}
			}
			for _, a := range fn.AnonFuncs {
				visit(a)
			}
		}
		for _, m := range p.Members {
			switch m := m.(type) {
			case *ssa.Function:
				visit(m)
			case *ssa.Type:
				for _, t := range []types.Type{m.Type(), types.NewPointer(m.Type())} {
					ms := e.prog.MethodSets.MethodSet(t)
					for j := 0; j < ms.Len(); j++ {
						visit(e.prog.MethodValue(ms.At(j)))
					}
				}
			}
		}
	}
	if len(bad) > 0 {
		return name, false, "also used in " + strings.Join(bad, ", ")
	}
	return name, true, ""
}

// assertGlobalSliceLiteral: a never-reassigned package variable initialised with a slice literal of
// constants, whose elements are never stored to through the variable in the loaded code: the slice
// header and, in the function's ENTRY heap, the elements have their literal values (assumption:
// no callee mutates the elements through an alias; reported).
func (fc *FnCtx) assertGlobalSliceLiteral(key string, g *ssa.Global, cl *ast.CompositeLit, info *types.Info) {
	e := fc.eng
	if e.sliceElemsMutated(g) {
		return
	}
	tb := fc.tb
	st := types.Unalias(g.Type().(*types.Pointer).Elem()).Underlying().(*types.Slice)
	if structElems(st.Elem()) {
		return
	}
	var vals []*Term
	for _, el := range cl.Elts {
		if _, isKV := el.(*ast.KeyValueExpr); isKV {
			return
		}
		tv, ok := info.Types[el]
		if !ok || tv.Value == nil {
			return
		}
		var v *Term
		switch tv.Value.Kind() {
		case constant.Int:
			v = tb.BigInt(tv.Value.ExactString())
		case constant.Bool:
			v = tb.Bool(constant.BoolVal(tv.Value))
		case constant.String:
			v = fc.strLit(constant.StringVal(tv.Value))
		default:
			return
		}
		vals = append(vals, v)
	}
	es := fc.so.Sort(st.Elem())
	if len(vals) > 0 && vals[0].Sort != es {
		return
	}
	fc.regKey(key, "Slice")
	c := tb.Const("h0!"+key, "Slice")
	ekey := "E:" + es
	esrt := ArraySort("Ref", ArraySort("Int", es))
	fc.regKey(ekey, esrt)
	e0 := tb.Const("h0!"+ekey, esrt)
	n := int64(len(vals))
	arr := tb.App("s_arr", "Ref", c)
	facts := []*Term{tb.Eq(tb.App("s_len", "Int", c), tb.Int(n)), tb.Eq(tb.App("s_cap", "Int", c), tb.Int(n)),
		tb.Eq(tb.App("s_off", "Int", c), tb.Int(0)), tb.Not(tb.Eq(arr, tb.Const("null", "Ref")))}
	for i, v := range vals {
		facts = append(facts, tb.Eq(tb.Select(tb.Select(e0, arr), tb.Int(int64(i))), v))
		// the same fact in the shape quantified element accesses are matched against
		facts = append(facts, tb.Eq(tb.Select(tb.Select(e0, arr), tb.SIdx(tb.App("s_off", "Int", c), tb.Int(int64(i)))), v))
	}
	// the literal's backing array exists since package initialisation
	fc.regKey("alloc", ArraySort("Ref", "Bool"))
	facts = append(facts, tb.Select(tb.Const("h0!alloc", ArraySort("Ref", "Bool")), fc.objBase(arr)))
	tb.AddAxiom("global slice "+g.Name(), tb.And(facts...))
	fc.note("package variable " + g.String() + ": slice literal never reassigned nor element-stored in the loaded code; its elements have their literal values in the entry heap (aliased mutation by callees not considered)")
}

// sliceElemsMutated: some loaded value of the global slice has an element stored to.
func (e *Engine) sliceElemsMutated(g *ssa.Global) bool {
	for _, p := range e.prog.AllPackages() {
		if !strings.HasPrefix(p.Pkg.Path(), snapdMod) {
			continue
		}
		mut := false
		seen := map[*ssa.Function]bool{}
		var visit func(fn *ssa.Function)
		visit = func(fn *ssa.Function) {
			if fn == nil || seen[fn] || mut {
				return
			}
			seen[fn] = true
			for _, b := range fn.Blocks {
				for _, in := range b.Instrs {
					u, ok := in.(*ssa.UnOp)
					if !ok || u.X != g {
						continue
					}
					if refs := u.Referrers(); refs != nil {
						for _, r := range *refs {
							if ia, ok := r.(*ssa.IndexAddr); ok {
								if rr := ia.Referrers(); rr != nil {
									for _, x := range *rr {
										if s, ok := x.(*ssa.Store); ok && s.Addr == ia {
											mut = true
										}
									}
								}
							}
						}
					}
				}
			}
			for _, a := range fn.AnonFuncs {
				visit(a)
			}
		}
		for _, m := range p.Members {
			switch m := m.(type) {
			case *ssa.Function:
				visit(m)
			case *ssa.Type:
				for _, t := range []types.Type{m.Type(), types.NewPointer(m.Type())} {
					ms := e.prog.MethodSets.MethodSet(t)
					for j := 0; j < ms.Len(); j++ {
						visit(e.prog.MethodValue(ms.At(j)))
					}
				}
			}
		}
		if mut {
			return true
		}
	}
	return false
}
