package govc

import (
	"go/types"
	"strings"
)

// mirrors(a, b, "Excl1 Excl2"): every field F of a's struct type (except the excluded ones) has a
// counterpart in b's struct type whose name equals F ignoring case, of the same sort, and the two
// values are equal. A field without counterpart makes the predicate false: this is how "a field added
// to the persisted form but not copied" is caught. a and b may be struct values or pointers.
func (fc *FnCtx) mirrors(env *Env, a *Term, at types.Type, b *Term, bt types.Type, excl string) *Term {
	tb := fc.tb
	ex := map[string]bool{}
	for _, f := range strings.Fields(excl) {
		ex[f] = true
	}
	sa := structOf(at)
	sb := structOf(bt)
	if sa == nil || sb == nil {
		fc.tfail("mirrors needs struct values or pointers to structs")
	}
	var conj []*Term
	for i := 0; i < sa.NumFields(); i++ {
		fa := sa.Field(i)
		if ex[fa.Name()] {
			continue
		}
		var fb *types.Var
		for j := 0; j < sb.NumFields(); j++ {
			if strings.EqualFold(sb.Field(j).Name(), fa.Name()) {
				fb = sb.Field(j)
			}
		}
		if fb == nil {
			fc.note("mirrors: field " + fa.Name() + " has no counterpart")
			return tb.False()
		}
		va, _, ok1 := fc.fieldOf(env, a, at, fa.Name())
		vb, _, ok2 := fc.fieldOf(env, b, bt, fb.Name())
		if !ok1 || !ok2 || va.Sort != vb.Sort {
			fc.note("mirrors: field " + fa.Name() + " and its counterpart have different representations")
			return tb.False()
		}
		conj = append(conj, tb.Eq(va, vb))
	}
	return tb.And(conj...)
}

func structOf(t types.Type) *types.Struct {
	t = types.Unalias(t)
	if p, ok := t.Underlying().(*types.Pointer); ok {
		t = types.Unalias(p.Elem())
	}
	s, _ := isStructType(t)
	return s
}
