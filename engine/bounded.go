package govc

import (
	"encoding/json"
	"fmt"
	"os"
	"os/exec"
	"path/filepath"
	"regexp"
	"strings"
)

// Bounded stand-ins: for a part of a property that the contracts do not decide, a bounded check of the
// real function (an in-package Go test run through a build overlay) may stand in. It is labelled
// "bounded" in the evidence and never counted as proved. A mismatch it finds is a violation WITH a
// failing input; mismatches that the test itself attributes to a recorded known finding are reported as
// KNOWN-FINDING.
type BoundedSpec struct {
	Name            string            `json:"name"`
	File            string            `json:"file"` // relative to /verif
	Pkg             string            `json:"pkg"`  // package directory relative to the repository
	Test            string            `json:"test"`
	Bound           map[string]string `json:"bound"` // tier -> value of VERIF_BOUND
	KnownObligation string            `json:"known_obligation"`
	What            string            `json:"what"`
}

var boundedReports []string

var reSummary = regexp.MustCompile(`BOUNDED-SUMMARY (.*)`)
var reKnownCount = regexp.MustCompile(`known_f1=(\d+)`)

// runBounded runs the bounded stand-ins of a property; returns the number of violations.
func runBounded(cfg *CheckConfig, pc *PropConfig, knownOpen map[string]KnownFinding) int {
	boundedReports = nil
	violations := 0
	for _, b := range pc.Bounded {
		ovf, err := os.CreateTemp("", "govc-bounded-*.json")
		if err != nil {
			fmt.Println("ERROR", err)
			return 1
		}
		target := filepath.Join(cfg.Repo, b.Pkg, "zz_bounded_test.go")
		src := filepath.Join(cfg.Verif, b.File)
		ov := map[string]map[string]string{"Replace": {target: src}}
		// mutants of the selftest are passed on
		for p, content := range cfg.Overlay {
			tmp, _ := os.CreateTemp("", "govc-bounded-src-*.go")
			tmp.Write(content)
			tmp.Close()
			defer os.Remove(tmp.Name())
			ov["Replace"][p] = tmp.Name()
		}
		bs, _ := json.Marshal(ov)
		ovf.Write(bs)
		ovf.Close()
		defer os.Remove(ovf.Name())
		cmd := exec.Command("go", "test", "-overlay", ovf.Name(), "-vet=off", "-count=1", "-timeout", "1500s", "-v", "-run", "^"+b.Test+"$", "./"+b.Pkg+"/")
		cmd.Dir = cfg.Repo
		cmd.Env = append(os.Environ(), "GOFLAGS=-mod=mod", "GOPROXY=off", "GOSUMDB=off", "GOTOOLCHAIN=local", "VERIF_BOUND="+b.Bound[cfg.Tier])
		out, _ := cmd.CombinedOutput()
		text := string(out)
		summary := ""
		if m := reSummary.FindStringSubmatch(text); m != nil {
			summary = m[1]
		}
		var mism []string
		for _, l := range strings.Split(text, "\n") {
			if strings.Contains(l, "MISMATCH") {
				mism = append(mism, strings.TrimSpace(l))
			}
		}
		rep := fmt.Sprintf("BOUNDED (not a proof) %s: %s [%s]", b.Name, b.What, summary)
		if summary == "" {
			// the stand-in did not run to completion: not a verdict
			fmt.Printf("UNDECIDED property=%s obligation=bounded:%s reason=bounded-check-did-not-run (%s)\n", cfg.Property, b.Name, firstLine(text))
			boundedReports = append(boundedReports, rep+" DID NOT RUN")
			continue
		}
		if len(mism) > 0 {
			violations++
			dir := filepath.Join(cfg.outBase(), "replays", cfg.Property)
			os.MkdirAll(dir, 0o755)
			path := filepath.Join(dir, "bounded_"+b.Name+".json")
			rb, _ := json.MarshalIndent(map[string]interface{}{"property": cfg.Property, "kind": "bounded", "obligation": "bounded:" + b.Name,
				"failing_inputs": mism, "summary": summary, "rerun": fmt.Sprintf("bounded/run.sh %s %s %s", filepath.Base(b.File), b.Pkg, b.Test)}, "", " ")
			os.WriteFile(path, rb, 0o644)
			fmt.Printf("VIOLATION property=%s replay=%s\n", cfg.Property, path)
			fmt.Printf("  bounded stand-in %s: %s\n", b.Name, mism[0])
		}
		if m := reKnownCount.FindStringSubmatch(summary); m != nil && m[1] != "0" {
			if kf, ok := knownOpen[b.KnownObligation]; ok {
				fmt.Printf("KNOWN-FINDING: property=%s %s (bounded stand-in %s: %s cases)\n", cfg.Property, kf.What, b.Name, m[1])
				knownHits = append(knownHits, b.KnownObligation)
			} else {
				violations++
				fmt.Printf("VIOLATION property=%s replay=%s\n", cfg.Property, src)
				fmt.Printf("  bounded stand-in %s reports %s cases of a finding that is not recorded as open\n", b.Name, m[1])
			}
		}
		boundedReports = append(boundedReports, rep)
	}
	return violations
}

func firstLine(s string) string {
	s = strings.TrimSpace(s)
	if i := strings.Index(s, "\n"); i >= 0 {
		s = s[:i]
	}
	if len(s) > 160 {
		s = s[:160]
	}
	return s
}
