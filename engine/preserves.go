package govc

// setAll: the function may write anything.
func (a *effSet) setAll() {
	a.all = true
	a.except = nil
}

// preservedKeys resolves the preserves clause of a contract to heap keys.
func (e *Engine) preservedKeys(con *Contract) map[string]bool {
	out := map[string]bool{}
	for _, p := range con.Preserves {
		for _, k := range e.resolveAssign(con, p, nil) {
			out[k] = true
		}
	}
	return out
}
