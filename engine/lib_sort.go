package govc

import (
	"go/types"

	"golang.org/x/tools/go/ssa"
)

// sort.Sort / sort.Stable / sort.Slice / sort.SliceStable / sort.Strings / sort.Ints: the call
// permutes the elements of the slice it is given and writes nothing else (the Less/Swap/less
// callbacks are assumed to be the usual pure comparison / element swap, T4). Modelled as a havoc
// of exactly the element storage of that slice type; nothing is assumed about the resulting
// order except for sort.Ints.
func init() {
	sortModel := func(name string) libFn {
		return func(fc *FnCtx, st *State, args []Val) Val {
			fc.usedLib(name + ": permutes the elements of its slice argument; writes nothing else (callbacks assumed pure)")
			for _, a := range args {
				fc.termNoEscape(a)
			}
			var elem types.Type
			if fc.curCall != nil && len(fc.curCall.Args) > 0 {
				a0 := fc.curCall.Args[0]
				t := a0.Type()
				if mi, ok := a0.(*ssa.MakeInterface); ok {
					t = mi.X.Type()
				}
				if sl, ok := types.Unalias(t).Underlying().(*types.Slice); ok {
					elem = sl.Elem()
				}
			}
			if elem == nil {
				fc.note(name + ": slice type of the argument not statically known: full havoc")
				fc.havocAll(st)
				return Tuple{}
			}
			var keys []string
			if structElems(elem) {
				keys = flatFieldKeys(elem)
			} else {
				k, _ := fc.elemKey(elem)
				keys = []string{k}
			}
			for _, k := range keys {
				if srt, ok := fc.keySort[k]; ok {
					st.heap[k] = fc.tb.Fresh("sorted!"+k, srt)
				}
			}
			return Tuple{}
		}
	}
	for _, n := range []string{"sort.Sort", "sort.Stable", "sort.Slice", "sort.SliceStable", "sort.Strings", "sort.Ints"} {
		libModels[n] = sortModel(n)
		libImpure[n] = true
	}
}
