package govc

import (
	"go/token"

	"golang.org/x/tools/go/ssa"
)

// A local variable of function type that is assigned exactly once, with a func literal, and is otherwise
// only loaded (or captured by closures that do not assign it) denotes that literal: calls through it are
// calls of the closure (computed effects / closure contract) instead of unknown function values.

// uniqueClosureStore returns the func literal stored into alloc if that is the only store to it.
func uniqueClosureStore(a *ssa.Alloc) *ssa.MakeClosure {
	var mc *ssa.MakeClosure
	stores := 0
	if a.Referrers() == nil {
		return nil
	}
	for _, r := range *a.Referrers() {
		switch x := r.(type) {
		case *ssa.Store:
			if x.Addr != a {
				return nil // the address itself is stored somewhere
			}
			stores++
			m, ok := x.Val.(*ssa.MakeClosure)
			if !ok {
				return nil
			}
			mc = m
		case *ssa.UnOp:
			if x.Op != token.MUL {
				return nil
			}
		case *ssa.MakeClosure:
			// captured: the capturing closure must not assign it
			fn := x.Fn.(*ssa.Function)
			for i, b := range x.Bindings {
				if b != a {
					continue
				}
				fv := fn.FreeVars[i]
				if fv.Referrers() != nil {
					for _, fr := range *fv.Referrers() {
						if u, ok := fr.(*ssa.UnOp); ok && u.Op == token.MUL {
							continue
						}
						return nil
					}
				}
			}
		case *ssa.DebugRef:
		default:
			return nil
		}
	}
	if stores != 1 {
		return nil
	}
	return mc
}

// closureOfFreeVar: inside a closure, the func literal a captured function variable denotes (see above).
func closureOfFreeVar(fv *ssa.FreeVar) *ssa.MakeClosure {
	fn := fv.Parent()
	if fn == nil || fn.Parent() == nil {
		return nil
	}
	idx := -1
	for i, f := range fn.FreeVars {
		if f == fv {
			idx = i
		}
	}
	if idx < 0 {
		return nil
	}
	// find the MakeClosure of fn in its parent
	for _, b := range fn.Parent().Blocks {
		for _, in := range b.Instrs {
			if mc, ok := in.(*ssa.MakeClosure); ok && mc.Fn == fn && idx < len(mc.Bindings) {
				if a, ok := mc.Bindings[idx].(*ssa.Alloc); ok {
					return uniqueClosureStore(a)
				}
			}
		}
	}
	return nil
}
