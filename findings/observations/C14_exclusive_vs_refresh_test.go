package snapstate_test

// Observation next to property C14 (NOT a violation of C14 as stated, see /verif/DESIGN.md 12.4). Run with:
//   /verif/findings/run.sh observations/C14_exclusive_vs_refresh_test.go overlord/snapstate TestSnapManager -check.f TestZZObservationExclusiveVsRefresh
// CheckChangeConflictRunExclusively is documented as "must be run when no other changes are running", but
// an in-progress refresh-snap or revert-snap change that is not a snapd downgrade is skipped before the
// default branch that refuses new exclusive changes: a remodel may start while a refresh is running.

import (
	. "gopkg.in/check.v1"

	"github.com/snapcore/snapd/overlord/snapstate"
	"github.com/snapcore/snapd/overlord/state"
)

func (s *snapmgrTestSuite) TestZZObservationExclusiveVsRefresh(c *C) {
	s.state.Lock()
	defer s.state.Unlock()

	for _, kind := range []string{"install-snap", "refresh-snap", "revert-snap"} {
		chg := s.state.NewChange(kind, "...")
		t := s.state.NewTask("link-snap", "...")
		chg.AddTask(t)
		t.SetStatus(state.DoingStatus)
		err := snapstate.CheckChangeConflictRunExclusively(s.state, "remodel")
		c.Check(err, NotNil, Commentf("in-progress %q change, new remodel allowed", kind))
		t.SetStatus(state.DoneStatus)
	}
}
