package snapstate_test

// Observations next to property C12 (NOT violations of C12 as stated). Run with:
//   /verif/findings/run.sh observations/C12_retain_one_and_shared_sequence_test.go overlord/snapstate TestObservationC12
// (1) refresh.retain = 1 is outside the accepted range 2..20 (configcore rejects it on set), but
//     refreshRetain passes any stored non-zero number through: with 1 stored and a refresh to a new
//     revision the garbage collection loop runs up to and including the position of the CURRENT
//     revision and schedules its removal (a negative stored value indexes past the sequence).
// (2) the loop that takes the refresh target out of the local copy of the sequence
//     (copy(seq[i:], seq[i+1:])) writes the array shared with the caller's snapst.Sequence.Revisions:
//     after doInstall(… refresh from 4 back to the kept revision 2 …) the caller's in-memory sequence
//     [1 2 3 4] reads [1 3 4 4]. doInstall does not store snapst after that point.

import (
	"encoding/json"
	"testing"

	. "gopkg.in/check.v1"

	"github.com/snapcore/snapd/overlord/configstate/config"
	"github.com/snapcore/snapd/overlord/snapstate"
	"github.com/snapcore/snapd/overlord/snapstate/snapstatetest"
	"github.com/snapcore/snapd/snap"
)

func TestObservationC12(t *testing.T) {
	res := Run(&snapmgrTestSuite{}, &RunConf{Filter: "TestZZObservationC12"})
	if res.RunError != nil || res.Succeeded != 2 || !res.Passed() {
		t.Fatalf("%s", res.String())
	}
}

func (s *snapmgrTestSuite) TestZZObservationC12RetainOneDiscardsCurrent(c *C) {
	s.state.Lock()
	defer s.state.Unlock()

	tr := config.NewTransaction(s.state)
	c.Assert(tr.Set("core", "refresh.retain", 1), IsNil)
	tr.Commit()

	sis := []*snap.SideInfo{
		{RealName: "some-snap", SnapID: "some-snap-id", Revision: snap.R(1)},
		{RealName: "some-snap", SnapID: "some-snap-id", Revision: snap.R(2)},
	}
	snapst := &snapstate.SnapState{
		Active:   true,
		Sequence: snapstatetest.NewSequenceFromSnapSideInfos(sis),
		Current:  snap.R(2),
		SnapType: string(snap.TypeApp),
	}
	snapstate.Set(s.state, "some-snap", snapst)
	snapsup := snapstate.SnapSetup{
		SideInfo: &snap.SideInfo{RealName: "some-snap", SnapID: "some-snap-id", Revision: snap.R(3)},
	}
	ts, err := snapstate.DoInstall(s.state, snapst, snapsup, nil, 0, "", inUseCheck)
	c.Assert(err, IsNil)
	discarded := map[int]bool{}
	for _, t := range ts.Tasks() {
		if t.Kind() != "clear-snap" {
			continue
		}
		var raw json.RawMessage
		c.Assert(t.Get("snap-setup", &raw), IsNil)
		var sup snapstate.SnapSetup
		c.Assert(json.Unmarshal(raw, &sup), IsNil)
		discarded[sup.SideInfo.Revision.N] = true
	}
	c.Check(discarded[2], Equals, false, Commentf("stored refresh.retain=1: removal scheduled for %v, 2 is the current revision", discarded))
}

func (s *snapmgrTestSuite) TestZZObservationC12CallerSequenceRewritten(c *C) {
	s.state.Lock()
	defer s.state.Unlock()

	sis := []*snap.SideInfo{
		{RealName: "some-snap", SnapID: "some-snap-id", Revision: snap.R(1)},
		{RealName: "some-snap", SnapID: "some-snap-id", Revision: snap.R(2)},
		{RealName: "some-snap", SnapID: "some-snap-id", Revision: snap.R(3)},
		{RealName: "some-snap", SnapID: "some-snap-id", Revision: snap.R(4)},
	}
	snapst := &snapstate.SnapState{
		Active:   true,
		Sequence: snapstatetest.NewSequenceFromSnapSideInfos(sis),
		Current:  snap.R(4),
		SnapType: string(snap.TypeApp),
	}
	snapstate.Set(s.state, "some-snap", snapst)
	snapsup := snapstate.SnapSetup{
		SideInfo: &snap.SideInfo{RealName: "some-snap", SnapID: "some-snap-id", Revision: snap.R(2)},
	}
	_, err := snapstate.DoInstall(s.state, snapst, snapsup, nil, 0, "", inUseCheck)
	c.Assert(err, IsNil)
	var revs []int
	for _, r := range snapst.Sequence.Revisions {
		revs = append(revs, r.Snap.Revision.N)
	}
	c.Check(revs, DeepEquals, []int{1, 2, 3, 4}, Commentf("caller's in-memory sequence after doInstall"))
}
