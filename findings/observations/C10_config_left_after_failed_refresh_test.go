package snapstate_test

// Finding (property C10, "a failed install, refresh or revert leaves the snap exactly as it was": configuration), open. Run with:
//   /verif/findings/run.sh observations/C10_config_left_after_failed_refresh_test.go overlord/snapstate TestFindingC10ConfigLeftAfterFailedRefresh
// doLinkSnap snapshots the configuration of the current revision with config.SaveRevisionConfig, which returns
// without recording anything when the snap has no configuration entry at all; undoLinkSnap puts the configuration
// back with config.RestoreRevisionConfig, which does nothing when there is no snapshot for the revision. So for a
// snap that had NO configuration before a refresh, whatever the new revision's hooks set during the refresh is
// still there after the refresh failed and was undone: before {} - after {"foo": "canary"}.
// (TestUpdateUndoRestoresRevisionConfig in snapstate_update_test.go is the same scenario with a configuration
// present before the refresh; there the old value comes back.)
// No obligation: SaveRevisionConfig / RestoreRevisionConfig are under contract for C29 (what is saved is what is restored);
// "a successful save always records a snapshot" is not a clause there. Found while reading the save/restore pairing for C10.

import (
	"errors"
	"testing"

	. "gopkg.in/check.v1"
	"gopkg.in/tomb.v2"

	"github.com/snapcore/snapd/overlord/configstate/config"
	"github.com/snapcore/snapd/overlord/snapstate"
	"github.com/snapcore/snapd/overlord/snapstate/snapstatetest"
	"github.com/snapcore/snapd/overlord/state"
	"github.com/snapcore/snapd/snap"
)

func TestFindingC10ConfigLeftAfterFailedRefresh(t *testing.T) {
	res := Run(&snapmgrTestSuite{}, &RunConf{Filter: "TestZZFindingC10ConfigLeftAfterFailedRefresh$"})
	if res.RunError != nil || res.Succeeded != 1 || !res.Passed() {
		t.Fatalf("failed refresh did not leave the snap's configuration as it was: %s", res.String())
	}
}

func (s *snapmgrTestSuite) TestZZFindingC10ConfigLeftAfterFailedRefresh(c *C) {
	var errorTaskExecuted bool
	// stands for a hook of the new revision that sets an option before a later task of the change fails
	erroringHandler := func(task *state.Task, _ *tomb.Tomb) error {
		st := task.State()
		st.Lock()
		defer st.Unlock()
		tr := config.NewTransaction(st)
		tr.Set("some-snap", "foo", "canary")
		tr.Commit()
		errorTaskExecuted = true
		return errors.New("error out")
	}
	s.o.TaskRunner().AddHandler("error-trigger", erroringHandler, nil)

	si := snap.SideInfo{RealName: "some-snap", SnapID: "some-snap-id", Revision: snap.R(7)}
	si2 := snap.SideInfo{RealName: "some-snap", SnapID: "some-snap-id", Revision: snap.R(6)}

	s.state.Lock()
	defer s.state.Unlock()

	snapstate.Set(s.state, "some-snap", &snapstate.SnapState{
		Active:          true,
		Sequence:        snapstatetest.NewSequenceFromSnapSideInfos([]*snap.SideInfo{&si2, &si}),
		TrackingChannel: "latest/stable",
		Current:         si.Revision,
		SnapType:        "app",
	})
	// the snap has no configuration before the refresh
	var before string
	tr := config.NewTransaction(s.state)
	c.Assert(config.IsNoOption(tr.Get("some-snap", "foo", &before)), Equals, true)

	chg := s.state.NewChange("refresh", "refresh a snap")
	ts, err := snapstate.Update(s.state, "some-snap", &snapstate.RevisionOptions{Channel: "some-channel"}, s.user.ID, snapstate.Flags{})
	c.Assert(err, IsNil)
	chg.AddAll(ts)
	last := lastWithLane(ts.Tasks())
	c.Assert(last, NotNil)
	terr := s.state.NewTask("error-trigger", "provoking total undo")
	terr.WaitFor(last)
	terr.JoinLane(last.Lanes()[0])
	chg.AddTask(terr)

	s.settle(c)

	c.Check(chg.Status(), Equals, state.ErrorStatus)
	c.Check(errorTaskExecuted, Equals, true)
	var snapst snapstate.SnapState
	c.Assert(snapstate.Get(s.state, "some-snap", &snapst), IsNil)
	c.Check(snapst.Current, Equals, snap.R(7))

	var after string
	tr = config.NewTransaction(s.state)
	err = tr.Get("some-snap", "foo", &after)
	c.Logf("option foo after the failed refresh: %q (err %v)", after, err)
	c.Check(config.IsNoOption(err), Equals, true, Commentf("the snap had no configuration before the failed refresh and has foo=%q after it", after))
}
