package store

// Finding (property C31), fixed by 39a19d3 (the tests pass on the repaired tree and fail before it). Run with:
//   /verif/findings/run.sh C31_stale_tail_kept_test.go store 'TestFindingC31.*'
// downloadImpl compares the digest of the bytes it STREAMED (seed re-read from the partial file plus the
// last response body), not of the file it leaves behind. When a response without status 206 makes it
// start over (`w.Seek(0, io.SeekStart); h = New(); resume = 0`) the file was not truncated: if an earlier
// attempt of the same call (or an over-long partial file, for content without declared size) left more
// bytes than the new body has, they stay behind the new body. The streamed digest matches, Download
// renames the file onto the target, syncs it and puts it into the download cache: a file whose SHA3-384
// is not the declared one, longer than the declared size, is kept and nil is returned.
// Server behaviour needed: one over-long (or misplaced) body followed by a dropped connection, then an
// ignored range request answered with the correct content - all within the property's quantifier.

import (
	"context"
	"fmt"
	"net/http"
	"net/http/httptest"
	"os"
	"path/filepath"
	"testing"
	"time"

	"golang.org/x/crypto/sha3"
	"gopkg.in/retry.v1"

	"github.com/snapcore/snapd/dirs"
	"github.com/snapcore/snapd/snap"
)

func findingC31Run(t *testing.T, partial []byte, first func(w http.ResponseWriter, r *http.Request), good []byte) {
	dirs.SetRootDir(t.TempDir())
	defer dirs.SetRootDir("")
	oldStrategy := downloadRetryStrategy
	downloadRetryStrategy = retry.LimitCount(5, retry.Exponential{Initial: time.Millisecond, Factor: 1})
	defer func() { downloadRetryStrategy = oldStrategy }()
	os.Setenv("SNAPD_USE_DELTAS_EXPERIMENTAL", "0")
	defer os.Unsetenv("SNAPD_USE_DELTAS_EXPERIMENTAL")

	n := 0
	var srv *httptest.Server
	srv = httptest.NewServer(http.HandlerFunc(func(w http.ResponseWriter, r *http.Request) {
		n++
		if n == 1 {
			first(w, r)
			srv.CloseClientConnections() // the connection drops in the middle of the body
			return
		}
		// the range request is ignored: status 200 and the complete, correct content
		w.Write(good)
	}))
	defer srv.Close()

	info := &snap.DownloadInfo{
		DownloadURL: srv.URL,
		Size:        int64(len(good)),
		Sha3_384:    fmt.Sprintf("%x", sha3.Sum384(good)),
	}
	target := filepath.Join(t.TempDir(), "foo_1.snap")
	if partial != nil {
		if err := os.WriteFile(target+".partial", partial, 0600); err != nil {
			t.Fatal(err)
		}
	}
	err := New(nil, nil).Download(context.Background(), "foo", target, info, nil, nil, nil)
	data, rerr := os.ReadFile(target)
	if rerr != nil {
		if err == nil {
			t.Fatalf("Download returned nil but there is no file at the target: %v", rerr)
		}
		return // failed and left nothing: allowed
	}
	if got := fmt.Sprintf("%x", sha3.Sum384(data)); got != info.Sha3_384 {
		t.Errorf("after %d requests Download returned err=%v and kept %d bytes (declared size %d) at the target with sha3-384 %.12s..., declared %.12s...",
			n, err, len(data), info.Size, got, info.Sha3_384)
	}
}

func findingC31Bytes(n int, b byte) []byte {
	buf := make([]byte, n)
	for i := range buf {
		buf[i] = b
	}
	return buf
}

// no partial file: the first answer carries an over-long corrupted body and breaks off, the second one
// ignores the range request
func TestFindingC31StaleTailFreshDownload(t *testing.T) {
	good := findingC31Bytes(50000, 'x')
	junk := findingC31Bytes(60000, 'y')
	findingC31Run(t, nil, func(w http.ResponseWriter, r *http.Request) {
		w.Header().Add("Content-Length", fmt.Sprintf("%d", len(junk)+5))
		w.Write(junk)
	}, good)
}

// a correct prefix is resumed: the first answer honours the range request but sends too much and breaks
// off, the second one ignores the range request
func TestFindingC31StaleTailResumedDownload(t *testing.T) {
	good := findingC31Bytes(50000, 'x')
	junk := findingC31Bytes(15000, 'y')
	findingC31Run(t, good[:40000], func(w http.ResponseWriter, r *http.Request) {
		w.Header().Add("Content-Length", fmt.Sprintf("%d", len(junk)+5))
		w.WriteHeader(206)
		w.Write(junk)
	}, good)
}
