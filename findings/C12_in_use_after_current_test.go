package snapstate_test

// Finding (property C12, "no revision in use for booting is ever discarded"), open. Run with:
//   /verif/findings/run.sh C12_in_use_after_current_test.go overlord/snapstate TestFindingC12InUseAfterCurrent
// doInstall asks the boot in-use oracle only in the "normal garbage collect" loop. The loop before it,
// "discard everything after current" (revisions left over from a revert), schedules the removal of every
// such revision except the refresh target without asking: with sequence [1 2 3], current 2, a refresh to
// the new revision 4 and an oracle that says revision 3 is needed for booting, clear-snap/discard-snap
// tasks for revisions 1 and 3 are created and the oracle is only ever asked about revision 1.
// Failing obligation: overlord/snapstate.doInstall#guard#call:removeInactiveRevision[in-use-kept-after-current]@1

import (
	"encoding/json"
	"testing"

	. "gopkg.in/check.v1"

	"github.com/snapcore/snapd/boot"
	"github.com/snapcore/snapd/overlord/snapstate"
	"github.com/snapcore/snapd/overlord/snapstate/snapstatetest"
	"github.com/snapcore/snapd/snap"
)

func TestFindingC12InUseAfterCurrent(t *testing.T) {
	res := Run(&snapmgrTestSuite{}, &RunConf{Filter: "TestZZFindingC12InUseAfterCurrent$"})
	if res.RunError != nil || res.Succeeded != 1 || !res.Passed() {
		t.Fatalf("revision in use for booting is scheduled for removal: %s", res.String())
	}
}

func (s *snapmgrTestSuite) TestZZFindingC12InUseAfterCurrent(c *C) {
	s.state.Lock()
	defer s.state.Unlock()

	sis := []*snap.SideInfo{
		{RealName: "some-snap", SnapID: "some-snap-id", Revision: snap.R(1)},
		{RealName: "some-snap", SnapID: "some-snap-id", Revision: snap.R(2)},
		{RealName: "some-snap", SnapID: "some-snap-id", Revision: snap.R(3)},
	}
	snapst := &snapstate.SnapState{
		Active:   true,
		Sequence: snapstatetest.NewSequenceFromSnapSideInfos(sis),
		Current:  snap.R(2),
		SnapType: string(snap.TypeApp),
	}
	snapstate.Set(s.state, "some-snap", snapst)
	snapsup := snapstate.SnapSetup{
		SideInfo: &snap.SideInfo{RealName: "some-snap", SnapID: "some-snap-id", Revision: snap.R(4)},
	}
	asked := map[int]bool{}
	oracle := func(snap.Type) (boot.InUseFunc, error) {
		return func(name string, rev snap.Revision) bool {
			asked[rev.N] = true
			return rev.N == 3
		}, nil
	}
	ts, err := snapstate.DoInstall(s.state, snapst, snapsup, nil, 0, "", oracle)
	c.Assert(err, IsNil)
	discarded := map[int]bool{}
	for _, t := range ts.Tasks() {
		if t.Kind() != "clear-snap" {
			continue
		}
		var raw json.RawMessage
		c.Assert(t.Get("snap-setup", &raw), IsNil)
		var sup snapstate.SnapSetup
		c.Assert(json.Unmarshal(raw, &sup), IsNil)
		discarded[sup.SideInfo.Revision.N] = true
	}
	c.Logf("removal scheduled for revisions %v, oracle asked about %v", discarded, asked)
	c.Check(discarded[3], Equals, false, Commentf("revision 3 is in use for booting but its removal was scheduled (oracle asked only about %v)", asked))
}
