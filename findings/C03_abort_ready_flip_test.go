package state

// Finding F6 (properties C03/C01). Run with:
//   /verif/findings/run.sh C03_abort_ready_flip_test.go overlord/state TestFindingAbortReadyFlip
// Aborting a change whose task list has a not-yet-started task BEFORE a finished one makes the change
// ready for a moment (Hold + Done) and the next status change (Done -> Undo) panics with
// "change ... unexpectedly became unready".

import "testing"

func TestFindingAbortReadyFlip(t *testing.T) {
	st := New(nil)
	st.Lock()
	defer st.Unlock()
	chg := st.NewChange("install", "...")
	t1 := st.NewTask("download", "1...")
	t2 := st.NewTask("verify", "2...")
	chg.AddTask(t1)
	chg.AddTask(t2)
	t2.SetStatus(DoneStatus)
	defer func() {
		if r := recover(); r != nil {
			t.Fatalf("Change.Abort panicked: %v (change was marked ready: %v)", r, chg.IsReady())
		}
	}()
	chg.Abort()
	if t1.Status() != HoldStatus || t2.Status() != UndoStatus {
		t.Fatalf("unexpected statuses %v %v", t1.Status(), t2.Status())
	}
	if chg.IsReady() {
		t.Fatalf("change with a task in Undo is marked ready")
	}
}
