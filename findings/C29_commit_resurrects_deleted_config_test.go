package config_test

// Finding (property C29), fixed, open. Run with:
//   /verif/findings/run.sh C29_commit_resurrects_deleted_config_test.go overlord/configstate/config 'TestFindingC29.*'
// Obligation: overlord/configstate/config.(*Transaction).Commit#guard#call:(*State).Get[decode-target-empty]@0
//
// Transaction.Commit re-reads the latest committed configuration with
//     t.state.Get("config", &t.pristine)
// but t.pristine still holds the snapshot taken by NewTransaction (or by an earlier Commit). State.Get is
// json.Unmarshal, and encoding/json REUSES a non-nil map and keeps its entries: the result is the latest
// committed configuration PLUS every snap entry of the stale snapshot that has been removed from the state in
// the meantime. Commit then stores that table. So committing a transaction that only wrote snap-a.foo
// re-creates the whole configuration of snap-b that was deleted (DeleteSnapConfig on snap removal, or
// SetSnapConfig(.., nil) by a snapshot restore) while the transaction was open - e.g. while a configure hook of
// snap-a was running with the state unlocked. The commit does not merge "only the written options into the
// latest committed configuration": a concurrent deletion is lost and the stale configuration is handed to a
// later reinstall of snap-b.

import (
	"encoding/json"
	"testing"

	"github.com/snapcore/snapd/overlord/configstate/config"
	"github.com/snapcore/snapd/overlord/state"
)

func findingC29Committed(t *testing.T, st *state.State) map[string]map[string]interface{} {
	var committed map[string]map[string]interface{}
	if err := st.Get("config", &committed); err != nil {
		t.Fatal(err)
	}
	return committed
}

func findingC29Setup(t *testing.T, st *state.State) *config.Transaction {
	// committed configuration of two snaps
	t0 := config.NewTransaction(st)
	if err := t0.Set("snap-a", "foo", "a0"); err != nil {
		t.Fatal(err)
	}
	if err := t0.Set("snap-b", "bar", "b0"); err != nil {
		t.Fatal(err)
	}
	t0.Commit()

	// a transaction is opened and writes one option of snap-a
	t1 := config.NewTransaction(st)
	if err := t1.Set("snap-a", "foo", "a1"); err != nil {
		t.Fatal(err)
	}
	return t1
}

func TestFindingC29CommitResurrectsDeletedSnapConfig(t *testing.T) {
	st := state.New(nil)
	st.Lock()
	defer st.Unlock()

	t1 := findingC29Setup(t, st)

	// meanwhile snap-b is removed: its configuration is deleted from the committed state
	if err := config.DeleteSnapConfig(st, "snap-b"); err != nil {
		t.Fatal(err)
	}
	if _, ok := findingC29Committed(t, st)["snap-b"]; ok {
		t.Fatalf("setup: snap-b configuration should be gone before the commit")
	}

	t1.Commit()

	committed := findingC29Committed(t, st)
	if committed["snap-a"]["foo"] != "a1" {
		t.Fatalf("written option not committed: %v", committed)
	}
	if _, ok := committed["snap-b"]; ok {
		t.Errorf("commit of a transaction that only wrote snap-a.foo re-created the deleted configuration of snap-b: %v", committed)
	}
}

func TestFindingC29CommitResurrectsClearedSnapConfig(t *testing.T) {
	st := state.New(nil)
	st.Lock()
	defer st.Unlock()

	t1 := findingC29Setup(t, st)

	// the other way a snap's entry disappears: SetSnapConfig with an empty document (snapshot restore)
	var none *json.RawMessage
	if err := config.SetSnapConfig(st, "snap-b", none); err != nil {
		t.Fatal(err)
	}

	t1.Commit()

	if _, ok := findingC29Committed(t, st)["snap-b"]; ok {
		t.Errorf("commit re-created the cleared configuration of snap-b: %v", findingC29Committed(t, st))
	}

	// a new transaction now reads the stale option as committed
	var v string
	if err := config.NewTransaction(st).Get("snap-b", "bar", &v); err == nil {
		t.Errorf("a later transaction reads snap-b.bar = %q although it was deleted and never written again", v)
	}
}
