package snapstate_test

// Finding (property C10, "a failed install, refresh or revert leaves the snap exactly as it was"), fixed. Run with:
//   /verif/findings/run.sh C10_revert_status_lost_on_failed_refresh_test.go overlord/snapstate TestFindingC10RevertStatusLostOnFailedRefresh
// doLinkSnap saves the snap's revert-status table ("old-revert-status") only when the operation is a revert.
// On a refresh it executes `delete(snapst.RevertStatus, cand.Snap.Revision.N)` without saving anything, and
// undoLinkSnap puts the table back only `if isRevert`. So: sequence [7 11], current 7, revision 11 recorded as
// "not blocked" (left behind by `snap revert --revert-status=not-blocked`), refresh to 11, any later task of the
// change fails => everything is undone (current 7, sequence [7 11], channel, cohort ...) except the table: it is
// empty afterwards, i.e. revision 11 is now blocked from automatic refresh (SnapState.Block() = [11]) although
// it was not before the failed operation.
// Failing obligation: overlord/snapstate.(*SnapManager).doLinkSnap#guard#mapdelete:SnapState.RevertStatus[c10-revert-status-changed-only-when-saved].1
// (clause in the doLinkSnap block of overlord/snapstate/c13_contracts_verif.go, props C13 C10)

import (
	"testing"

	. "gopkg.in/check.v1"

	"github.com/snapcore/snapd/overlord/snapstate"
	"github.com/snapcore/snapd/overlord/snapstate/snapstatetest"
	"github.com/snapcore/snapd/snap"
	"github.com/snapcore/snapd/snap/snaptest"
)

func TestFindingC10RevertStatusLostOnFailedRefresh(t *testing.T) {
	res := Run(&snapmgrTestSuite{}, &RunConf{Filter: "TestZZFindingC10RevertStatusLostOnFailedRefresh$"})
	if res.RunError != nil || res.Succeeded != 1 || !res.Passed() {
		t.Fatalf("failed refresh did not leave the snap as it was: %s", res.String())
	}
}

func (s *snapmgrTestSuite) TestZZFindingC10RevertStatusLostOnFailedRefresh(c *C) {
	si := snap.SideInfo{RealName: "services-snap", Revision: snap.R(7), SnapID: "services-snap-id"}
	snaptest.MockSnap(c, `name: services-snap`, &si)

	s.state.Lock()
	defer s.state.Unlock()

	si2 := snap.SideInfo{RealName: "services-snap", Revision: snap.R(11), SnapID: "services-snap-id"}
	before := &snapstate.SnapState{
		Active:   true,
		Sequence: snapstatetest.NewSequenceFromSnapSideInfos([]*snap.SideInfo{&si, &si2}),
		Current:  si.Revision,
		RevertStatus: map[int]snapstate.RevertStatus{
			11: snapstate.NotBlocked,
		},
		SnapType:        "app",
		TrackingChannel: "latest/stable",
		CohortKey:       "embattled",
	}
	snapstate.Set(s.state, "services-snap", before)
	c.Assert(before.Block(), HasLen, 0)

	chg := s.state.NewChange("refresh", "refresh a snap")
	ts, err := snapstate.Update(s.state, "services-snap", &snapstate.RevisionOptions{
		Channel:   "some-channel",
		CohortKey: "some-cohort",
	}, s.user.ID, snapstate.Flags{})
	c.Assert(err, IsNil)
	chg.AddAll(ts)
	last := lastWithLane(ts.Tasks())
	c.Assert(last, NotNil)
	terr := s.state.NewTask("error-trigger", "provoking total undo")
	terr.WaitFor(last)
	terr.JoinLane(last.Lanes()[0])
	chg.AddTask(terr)

	s.settle(c)

	var snapst snapstate.SnapState
	c.Assert(snapstate.Get(s.state, "services-snap", &snapst), IsNil)
	// the rest of the record is back
	c.Check(snapst.Active, Equals, true)
	c.Check(snapst.Current, Equals, snap.R(7))
	c.Check(snapst.TrackingChannel, Equals, "latest/stable")
	c.Check(snapst.CohortKey, Equals, "embattled")
	c.Assert(snapst.Sequence.Revisions, HasLen, 2)
	c.Check(snapst.Sequence.Revisions[0].Snap.Revision, Equals, snap.R(7))
	c.Check(snapst.Sequence.Revisions[1].Snap.Revision, Equals, snap.R(11))
	// but not which kept revisions are blocked from automatic refresh
	c.Logf("revert status after the failed refresh: %v, blocked revisions: %v", snapst.RevertStatus, snapst.Block())
	c.Check(snapst.RevertStatus, DeepEquals, map[int]snapstate.RevertStatus{11: snapstate.NotBlocked})
	c.Check(snapst.Block(), HasLen, 0, Commentf("revision 11 was not blocked before the failed refresh and is blocked after it"))
}
