package wrappers

// Finding (property C27), fixed. Run with:
//   /verif/findings/run.sh C27_desktop_file_name_test.go wrappers 'TestFindingC27.*'
// rewriteExecLine puts the name of the installed desktop file unquoted into the Exec= value
// ("Exec=env BAMF_DESKTOP_FILE_HINT=<file> <wrapper>"). The name comes from the file name chosen by the snap
// in meta/gui (deriveDesktopFilesContent: "FIXME: don't blindly use the snap desktop filename") and is never
// checked: a blank in it makes `env` run the next word instead of the wrapper, a newline in it adds whole
// lines to the installed desktop file after the allow-list has been applied.

import (
	"os"
	"path/filepath"
	"strings"
	"testing"

	"github.com/snapcore/snapd/dirs"
	"github.com/snapcore/snapd/osutil"
	"github.com/snapcore/snapd/snap"
)

func findingC27Installed(t *testing.T, fileName string) string {
	dirs.SetRootDir(t.TempDir())
	defer dirs.SetRootDir("")
	info := &snap.Info{SuggestedName: "foo", SideInfo: snap.SideInfo{Revision: snap.R(3)}}
	info.Apps = map[string]*snap.AppInfo{"app": {Snap: info, Name: "app"}}
	gui := filepath.Join(info.MountDir(), "meta", "gui")
	os.MkdirAll(gui, 0755)
	if err := os.WriteFile(filepath.Join(gui, fileName), []byte("[Desktop Entry]\nName=x\nExec=foo.app\n"), 0644); err != nil {
		t.Fatal(err)
	}
	m, err := deriveDesktopFilesContent(info)
	if err != nil {
		t.Fatal(err)
	}
	out := ""
	for _, st := range m {
		out += string(st.(*osutil.MemoryFileState).Content)
	}
	return out
}

func TestFindingC27BlankInDesktopFileName(t *testing.T) {
	out := findingC27Installed(t, "x sh -c id #.desktop")
	for _, l := range strings.Split(out, "\n") {
		if strings.HasPrefix(l, "Exec=") && strings.Contains(l, " sh -c id ") {
			t.Errorf("the installed Exec line runs `sh -c id` through env instead of the wrapper: %q", l)
		}
	}
}

func TestFindingC27NewlineInDesktopFileName(t *testing.T) {
	out := findingC27Installed(t, "x\nExec=sh -c id\nX-Y.desktop")
	for _, l := range strings.Split(out, "\n") {
		if l == "Exec=sh -c id" {
			t.Errorf("the installed desktop file has a line that never went through the sanitiser: %q", l)
		}
	}
}
