package osutil

// Finding (property C23), fixed. Run with:
//   /verif/findings/run.sh C23_bad_later_pattern_test.go osutil 'TestFindingC23.*'
// EnsureDirStateGlobs checked the syntax of its patterns with matchAny(globs, "foo"), which stops at the
// first pattern that matches "foo": a malformed pattern after it escaped the check, filepath.Glob failed in
// the middle of the delete phase and the function returned at once - after having written new files,
// without removing stale ones, and (after a write failure) without failing closed and without reporting
// the write error.

import (
	"os"
	"path/filepath"
	"strings"
	"testing"
)

func TestFindingC23BadLaterPattern(t *testing.T) {
	dir := t.TempDir()
	os.WriteFile(filepath.Join(dir, "snap.foo.stale"), []byte("old"), 0644)
	_, _, err := EnsureDirStateGlobs(dir, []string{"*", "["}, map[string]FileState{
		"snap.foo.new": &MemoryFileState{Content: []byte("new"), Mode: 0644},
	})
	if err == nil || !strings.Contains(err.Error(), "invalid pattern") {
		t.Errorf("malformed pattern not rejected up front: err=%v", err)
	}
	if _, serr := os.Stat(filepath.Join(dir, "snap.foo.new")); serr == nil {
		t.Errorf("a file was written although the call was given a malformed pattern")
	}
}

func TestFindingC23WriteErrorLost(t *testing.T) {
	dir := t.TempDir()
	os.MkdirAll(filepath.Join(dir, "snap.foo.b", "x"), 0755) // non-empty directory in the way: the write fails
	_, _, err := EnsureDirStateGlobs(dir, []string{"*", "["}, map[string]FileState{
		"snap.foo.b": &MemoryFileState{Content: []byte("new"), Mode: 0644},
	})
	if err == nil || strings.Contains(err.Error(), "syntax error in pattern") && !strings.Contains(err.Error(), "invalid pattern") {
		t.Errorf("the write failure was replaced by a pattern error from the middle of the delete phase: err=%v", err)
	}
}
