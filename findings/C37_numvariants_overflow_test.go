package patterns

// Finding F3 (property C37), fixed. Run with:
//   /verif/findings/run.sh C37_numvariants_overflow_test.go interfaces/prompting/patterns TestFindingC37NumVariantsOverflow
// The number of expansions was computed with wrapping int arithmetic: "/" followed by 63 groups {a,b}
// has 2^63 expansions, the product wrapped to -2^63 (64 groups: 0) and the pattern passed the limit of
// 1000 expanded patterns.

import (
	"strings"
	"testing"
)

func TestFindingC37NumVariantsOverflow(t *testing.T) {
	for _, n := range []int{62, 63, 64, 65} {
		p, err := ParsePathPattern("/" + strings.Repeat("{a,b}", n))
		if err == nil {
			t.Errorf("pattern with %d two-way groups (2^%d expansions) accepted, NumVariants() = %d", n, n, p.NumVariants())
		}
	}
}
