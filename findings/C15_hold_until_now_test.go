package snapstate

// Finding, fixed by 695c9e6 (property C15, administrator holds last until their requested time). Run with:
//   /verif/findings/run.sh C15_hold_until_now_test.go overlord/snapstate TestFindingC15HoldUntilNow
// HoldRefreshesBySystem turns the requested time into a duration (requested - now) and HoldRefresh reads a
// zero duration as "forever": a hold requested until exactly the current clock reading is stored as a hold of
// 290 years instead of one that is already over.

import (
	"testing"
	"time"

	"github.com/snapcore/snapd/overlord/snapstate/sequence"
	"github.com/snapcore/snapd/overlord/state"
	"github.com/snapcore/snapd/snap"
)

func TestFindingC15HoldUntilNow(t *testing.T) {
	st := state.New(nil)
	st.Lock()
	defer st.Unlock()
	si := &snap.SideInfo{RealName: "a", Revision: snap.R(1)}
	Set(st, "a", &SnapState{Active: true, Current: snap.R(1), SnapType: "app",
		Sequence: sequence.SnapSequence{Revisions: []*sequence.RevisionSideState{sequence.NewRevisionSideState(si, nil)}}})
	T := time.Date(2026, 9, 22, 10, 0, 0, 0, time.UTC)
	old := timeNow
	timeNow = func() time.Time { return T }
	defer func() { timeNow = old }()
	if err := HoldRefreshesBySystem(st, HoldGeneral, T.Format(time.RFC3339), []string{"a"}); err != nil {
		t.Fatal(err)
	}
	until, err := SystemHold(st, "a")
	if err != nil {
		t.Fatal(err)
	}
	if until.After(T) {
		t.Fatalf("clock %s, hold requested until %s, stored hold-until %s", T.Format(time.RFC3339), T.Format(time.RFC3339), until.UTC().Format(time.RFC3339))
	}
}
