package quota

// Known finding F2b (property C36), open. Run with:
//   /verif/findings/run.sh C36_F2b_cpuset_enlarge_test.go snap/quota TestFindingC36F2b
// A group with a percentage-only CPU quota reserves len(cpu-set) x percentage. Enlarging its cpu-set is
// accepted without a CPU fit check, so the children of a group can end up reserving more than its limit.

import "testing"

func TestFindingC36F2b(t *testing.T) {
	restore := MockRuntimeNumCPU(func() int { return 8 })
	defer restore()
	top, err := NewGroup("top2", NewResourcesBuilder().WithCPUCount(1).WithCPUPercentage(100).WithCPUSet([]int{0, 1}).Build())
	if err != nil {
		t.Fatal(err)
	}
	child2, err := top.NewSubGroup("child2", NewResourcesBuilder().WithCPUPercentage(50).WithCPUSet([]int{0}).Build())
	if err != nil {
		t.Fatal(err)
	}
	if _, err := top.NewSubGroup("child3", NewResourcesBuilder().WithCPUCount(1).WithCPUPercentage(50).Build()); err != nil {
		t.Fatal(err)
	}
	err = child2.UpdateQuotaLimits(NewResourcesBuilder().WithCPUSet([]int{0, 1}).Build())
	q := map[string]*groupQuotaAllocations{}
	e := top.getQuotaAllocations(q)
	if err == nil && e.CPUReservedByChildren > e.CPULimit {
		t.Fatalf("update accepted: children reserve %d%% under a parent limited to %d%%", e.CPUReservedByChildren, e.CPULimit)
	}
}
