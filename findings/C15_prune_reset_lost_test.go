package snapstate

// Observation next to property C15 (episode reset). Run with:
//   /verif/findings/run.sh C15_prune_reset_lost_test.go overlord/snapstate TestFindingC15ResetLost
// resetGatingForRefreshed and pruneGating do `changed = pruneHoldStatesForSnap(...)` in a loop: a later snap that
// only has an administrator hold (result false) overwrites an earlier true, st.Set is skipped and the holds
// dropped in memory stay in the state.

import (
	"testing"
	"time"

	"github.com/snapcore/snapd/overlord/state"
)

func TestFindingC15ResetLost(t *testing.T) {
	st := state.New(nil)
	st.Lock()
	defer st.Unlock()
	now := time.Now()
	st.Set("snaps-hold", map[string]map[string]*holdState{
		"a": {"x": {FirstHeld: now, HoldUntil: now.Add(time.Hour)}},
		"b": {"system": {FirstHeld: now, HoldUntil: now.Add(time.Hour)}},
	})
	if err := resetGatingForRefreshed(st, "a", "b"); err != nil {
		t.Fatal(err)
	}
	g, err := refreshGating(st)
	if err != nil {
		t.Fatal(err)
	}
	if _, still := g["a"]["x"]; still {
		t.Fatalf("resetGatingForRefreshed(a, b): the hold of x on the refreshed snap a is still stored")
	}
}
