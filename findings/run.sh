#!/bin/bash
# usage: run.sh <test file in /verif/findings> <package dir relative to /repo> <TestName>
# runs a finding demonstration against /repo's working tree through a build overlay (nothing is written to /repo)
set -eu
export GOFLAGS=-mod=mod GOPROXY=off GOSUMDB=off GOTOOLCHAIN=local
f=/verif/findings/$1; pkg=$2; name=$3
ov=$(mktemp /tmp/findings-ov-XXXXXX.json)
printf '{"Replace": {"/repo/%s/zz_finding_test.go": "%s"}}' "$pkg" "$f" > $ov
cd /repo && go test -overlay $ov -vet=off -count=1 -timeout 120s -run "^$name\$" ./$pkg/ ; rc=$?
rm -f $ov
exit $rc
