#!/bin/bash
# usage: seed_keep.sh <worktree> <N> <id> "<detected-by text>" : store a confirmed seeded change under /verif/seeded/<id>/
set -eu
W=$1; N=$2; ID=$3; DET=$4
D=/verif/seeded/$ID
mkdir -p $D
cp $W/SEED/$N/patch.diff $D/patch.diff
cp $W/SEED/$N/*_test.go $D/ 2>/dev/null || true
jq --arg det "$DET" --arg ran "confirmed in a scratch worktree with tools/seed_confirm.sh: demo passes on the original, fails with the patch, the touched packages build and their existing tests pass with the patch; check run with tools/seed_check.sh (git apply to /repo, quick check, git checkout -- .)" '. + {detected_by: $det, confirmation: $ran}' $W/SEED/$N/meta.json > $D/meta.json
echo kept $D
