#!/usr/bin/env python3
"""Generate /verif/MANIFEST.json from props/*.json and props/not_applicable.json."""
import json, glob, os
V = os.path.dirname(os.path.dirname(os.path.abspath(__file__)))
checks = []
claimed = set()
CLAIMED = [l.strip() for l in open(os.path.join(V, "props", "CLAIMED")) if l.strip()]
for pid in sorted(CLAIMED):
    f = os.path.join(V, "props", pid + ".json")
    p = json.load(open(f))
    assert p["id"] == pid
    claimed.add(pid)
    checks.append({
        "property_id": pid,
        "quick_cmd": f"bin/govc check --property {pid} --tier quick",
        "thorough_cmd": f"bin/govc check --property {pid} --tier thorough",
        "evidence_file": f"evidence/{pid}.json",
        "replay_cmd_template": "bin/govc replay {path}",
        "engine": "govc",
        "level_claimed": {"category": "proof", "text": p["level_text"], "design_ref": p.get("design_ref", "DESIGN.md section 12.6 (" + pid + ", as built) and section 8 (plan)")},
        "level_note": p["level_note"],
        "technique": p.get("technique", "contract-based deductive verification: weakest-precondition VCs over go/ssa of the real code, discharged by z3/cvc5"),
    })
na = json.load(open(os.path.join(V, "props", "not_applicable.json")))
props = [json.loads(l)["id"] for l in open(os.path.join(V, "properties.jsonl"))]
na_ids = {x["property_id"] for x in na}
missing = [p for p in props if p not in claimed and p not in na_ids]
assert not missing, f"properties neither claimed nor not_applicable: {missing}"
both = [p for p in props if p in claimed and p in na_ids]
assert not both, f"both claimed and N/A: {both}"
import subprocess
log = subprocess.run(["git", "-C", "/repo", "log", "--reverse", "--format=%H %s"], capture_output=True, text=True).stdout.splitlines()
hooks = [l for l in log if l.split(" ", 1)[1].startswith("verif:")]
fixes = [l for l in log if l.split(" ", 1)[1].startswith("fix:")]
with open(os.path.join(V, "MANIFEST.hooks"), "w") as f:
    f.write("# hook commits in /repo (guard: build tag 'verif'; add-only: each adds a contracts_verif.go file or lines to one)\n")
    for h in hooks:
        f.write(h + "\n")
    f.write("# unguarded defect repairs (fix: commits)\n")
    for h in fixes:
        f.write("# " + h + "\n")
m = {
    "version": 1,
    "setup_cmd": "cd engine && GOFLAGS=-mod=mod GOPROXY=off GOSUMDB=off GOTOOLCHAIN=local go build -o ../bin/govc ./cmd/govc",
    "hooks": {
        "guard": "verif",
        "enable": "go build tag: -tags verif (contracts live in <pkg>/contracts_verif.go files with //go:build verif; govc loads packages with that tag)",
        "baseline_off_cmd": json.load(open("/root/.vp/BASELINE.json"))["cmd"],
        "source_commits": [h.split()[0] for h in hooks],
        "add_only": True,
    },
    "engines": [{"name": "govc", "path": "engine", "serves_properties": sorted(claimed),
                 "kind_free_text": "weakest-precondition / VC generator over go/ssa (naive form) of the real snapd code with //@ contracts, discharged by z3 4.8.12, z3 5.1.0 and cvc5 1.0 raced per obligation"}],
    "checks": checks,
    "not_applicable": [x for x in na if x["property_id"] not in claimed],
    "notes": "All checks reload the named packages from /repo's working tree with -tags verif on every run. Known findings: known_findings.json. Must-fail corpus: bin/govc selftest.",
}
json.dump(m, open(os.path.join(V, "MANIFEST.json"), "w"), indent=1)
print("claimed", len(checks), "n/a", len(m["not_applicable"]))
