#!/bin/bash
# usage: seed_confirm.sh <worktree> <N> : confirm a seeded change in a scratch worktree:
# demo passes on the original, fails with the patch, package builds and existing tests pass with the patch.
set -u
export GOFLAGS=-mod=mod GOPROXY=off GOSUMDB=off GOTOOLCHAIN=local
W=$1; N=$2; S=$W/SEED/$N
cd $W || exit 2
git checkout -q -- . ; git clean -qfd -e SEED
demo_path=$(jq -r .demo_path $S/meta.json)
demo_file=$(ls $S/*_test.go | head -1)
pkgs=$(grep '^+++ b/' $S/patch.diff | sed 's|+++ b/||' | xargs -n1 dirname | sort -u | sed 's|^|./|')
run_demo() { go test -count=1 ./$(dirname $demo_path)/ -run "$(grep -o 'func Test[A-Za-z0-9_]*' $demo_file | sed 's/func //' | paste -sd'|')" 2>&1 | tail -3; }
cp $demo_file $demo_path
echo "== demo on original (must PASS)"; run_demo
git apply $S/patch.diff || { echo "PATCH DOES NOT APPLY"; exit 1; }
echo "== demo with patch (must FAIL)"; run_demo
rm -f $demo_path
echo "== build + existing tests with patch (must PASS): $pkgs"
for p in $pkgs; do go build $p && go test -count=1 $p 2>&1 | tail -2; done
git checkout -q -- . ; git clean -qfd -e SEED
