#!/bin/bash
# usage: determinism.sh <property> : generate the VCs twice and report obligations whose vc_hash differs
cd /verif
for i in 1 2; do
  ./bin/govc check --property $1 --evidence-dir /tmp/det-$1-$i >/dev/null 2>&1
  jq -r '.coverage.all_obligations[] | "\(.name) \(.vc_hash)"' /tmp/det-$1-$i/$1.json 2>/dev/null | sort > /tmp/det-$1-$i.txt || jq -r '.coverage.all_obligations[] | "\(.name) \(.vc_hash)"' /tmp/det-$1-$i/$1.json | sort > /tmp/det-$1-$i.txt
done
echo "$1: $(wc -l < /tmp/det-$1-1.txt) obligations, $(diff /tmp/det-$1-1.txt /tmp/det-$1-2.txt | grep -c '^<') differ"
diff /tmp/det-$1-1.txt /tmp/det-$1-2.txt | grep '^<' | head -5
rm -rf /tmp/det-$1-1 /tmp/det-$1-2
