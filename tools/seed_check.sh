#!/bin/bash
# usage: seed_check.sh <patch.diff> <property> : run the property's quick check against /repo with the patch applied
set -u
P=$1; PROP=$2
cd /repo && git apply $P || { echo "PATCH DOES NOT APPLY to /repo"; exit 2; }
cd /verif && ./bin/govc check --property $PROP --evidence-dir /tmp/seedev-$PROP 2>&1 | grep -v "^  obligation" | tail -8
rc=${PIPESTATUS[0]}
cd /repo && git apply -R $P
rm -rf /tmp/seedev-$PROP
git -C /repo status --short | grep -v muinstaller | head -3
exit $rc
