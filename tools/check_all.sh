#!/bin/bash
# run the quick check of every listed property (default: props/CLAIMED) and print the summary lines
cd /verif
props=${@:-$(cat props/CLAIMED)}
for p in $props; do
  out=$(./bin/govc check --property $p 2>&1)
  echo "$out" | grep -E "^(VIOLATION|UNDECIDED|KNOWN-FINDING)" | head -8
  echo "$out" | tail -1
done
