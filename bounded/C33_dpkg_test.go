package strutil

// BOUNDED stand-in (not a proof) for the part of C33 that the contracts do not decide: "orders versions
// exactly as Debian version ordering does". Differential check of VersionCompare against a port of dpkg's
// verrevcmp/version compare for ALL pairs of strings up to a stated length over a stated alphabet.
// Run through /verif/bounded/run.sh (go test -overlay, nothing is written to /repo).

import (
	"os"
	"strconv"
	"strings"
	"testing"
)

func dpkgOrder(c byte) int {
	switch {
	case c >= '0' && c <= '9':
		return 0
	case (c >= 'a' && c <= 'z') || (c >= 'A' && c <= 'Z'):
		return int(c)
	case c == '~':
		return -1
	case c == 0:
		return 0
	default:
		return int(c) + 256
	}
}

func at(s string, i int) byte {
	if i < len(s) {
		return s[i]
	}
	return 0
}

func isdig(c byte) bool { return c >= '0' && c <= '9' }

// port of dpkg lib/dpkg/version.c:verrevcmp
func verrevcmp(a, b string) int {
	i, j := 0, 0
	for i < len(a) || j < len(b) {
		firstDiff := 0
		for (i < len(a) && !isdig(a[i])) || (j < len(b) && !isdig(b[j])) {
			ac, bc := dpkgOrder(at(a, i)), dpkgOrder(at(b, j))
			if ac != bc {
				return ac - bc
			}
			i++
			j++
		}
		for at(a, i) == '0' {
			i++
		}
		for at(b, j) == '0' {
			j++
		}
		for isdig(at(a, i)) && isdig(at(b, j)) {
			if firstDiff == 0 {
				firstDiff = int(a[i]) - int(b[j])
			}
			i++
			j++
		}
		if isdig(at(a, i)) {
			return 1
		}
		if isdig(at(b, j)) {
			return -1
		}
		if firstDiff != 0 {
			return firstDiff
		}
	}
	return 0
}

func splitRev(v string) (string, string) {
	if k := strings.LastIndexByte(v, '-'); k >= 0 {
		return v[:k], v[k+1:]
	}
	return v, ""
}

func dpkgCompare(a, b string) int {
	au, ar := splitRev(a)
	bu, br := splitRev(b)
	if r := verrevcmp(au, bu); r != 0 {
		return r
	}
	return verrevcmp(ar, br)
}

func sign(x int) int {
	switch {
	case x < 0:
		return -1
	case x > 0:
		return 1
	}
	return 0
}

// The known finding F1: when one side of a (sub)version is exhausted while the other continues with a
// numeric fragment, snapd compares "" with that fragment as strings (end of string sorts first) whereas
// Debian treats the missing number as 0 ("1." vs "1.0", "1a" vs "1a0" are equal; "1a" > "1a0~").
// A mismatch is attributed to F1 exactly when snapd's own algorithm WITH that one repair agrees with dpkg.
func repairedSub(va, vb string) int {
	for {
		a, ra, anum := nextFrag(va)
		b, rb, bnum := nextFrag(vb)
		va, vb = ra, rb
		if a == "" && b == "" {
			return 0
		}
		var res int
		switch {
		case anum && bnum:
			res = cmpNumeric(a, b)
		case a == "" && bnum:
			res = cmpNumeric("0", b)
		case b == "" && anum:
			res = cmpNumeric(a, "0")
		default:
			res = cmpString(a, b)
		}
		if res != 0 {
			return res
		}
	}
}

func repairedCompare(a, b string) int {
	au, ar := splitRev(a)
	bu, br := splitRev(b)
	if !strings.Contains(a, "-") {
		ar = "0"
	}
	if !strings.Contains(b, "-") {
		br = "0"
	}
	if r := repairedSub(au, bu); r != 0 {
		return r
	}
	return repairedSub(ar, br)
}

func isKnownF1(a, b string, dp int) bool {
	return sign(repairedCompare(a, b)) == dp
}

func TestBoundedC33Dpkg(t *testing.T) {
	maxLen := 4
	if v := os.Getenv("VERIF_BOUND"); v != "" {
		maxLen, _ = strconv.Atoi(v)
	}
	alphabet := []byte("01a.+~-")
	var all []string
	var gen func(prefix []byte)
	gen = func(prefix []byte) {
		all = append(all, string(prefix))
		if len(prefix) == maxLen {
			return
		}
		for _, c := range alphabet {
			gen(append(prefix, c))
		}
	}
	gen(nil)
	// Debian-valid versions: the upstream part starts with a digit, the revision (after the last '-') is not empty
	var valid []string
	for _, v := range all {
		if len(v) > 0 && isdig(v[0]) && v[len(v)-1] != '-' {
			valid = append(valid, v)
		}
	}
	all = valid
	pairs, known, bad := 0, 0, 0
	for _, a := range all {
		for _, b := range all {
			res, err := VersionCompare(a, b)
			if err != nil {
				continue
			}
			pairs++
			dp := sign(dpkgCompare(a, b))
			if sign(res) != dp {
				if isKnownF1(a, b, dp) {
					known++
					if known <= 3 {
						t.Logf("KNOWN-F1 example: VersionCompare(%q, %q) = %d, dpkg = %d", a, b, res, dp)
					}
					continue
				}
				bad++
				if bad <= 10 {
					t.Errorf("MISMATCH VersionCompare(%q, %q) = %d, dpkg = %d", a, b, res, dp)
				}
			}
		}
	}
	t.Logf("BOUNDED-SUMMARY strings=%d pairs=%d maxlen=%d alphabet=%q known_f1=%d mismatches=%d", len(all), pairs, maxLen, alphabet, known, bad)
}
