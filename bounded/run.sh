#!/bin/bash
# usage: run.sh <test file in /verif/bounded> <package dir relative to /repo> <TestName>
# bounded stand-in checks, run against /repo's working tree through a build overlay
set -u
export GOFLAGS=-mod=mod GOPROXY=off GOSUMDB=off GOTOOLCHAIN=local
f=/verif/bounded/$1; pkg=$2; name=$3
ov=$(mktemp /tmp/bounded-ov-XXXXXX.json)
printf '{"Replace": {"/repo/%s/zz_bounded_test.go": "%s"}}' "$pkg" "$f" > $ov
cd /repo && go test -overlay $ov -vet=off -count=1 -timeout 1200s -v -run "^$name\$" ./$pkg/ ; rc=$?
rm -f $ov
exit $rc
